a = 0


def func1():
    global a
    a = 1


def func2():
    global a
    if (a := 3) == 3:
        print("xd")


def func3():
    a = 5


print(a)
func1()
print(a)
func2()
print(a)
func3()
print(a)

b = 0
c = 0


class B:
    global b
    b = 2
    c = 2


print(b)
print(c)
