import sys, os, io
sys.path.insert(0, __import__("os").path.dirname(__import__("os").path.dirname(__import__("os").path.abspath(__file__))))
from sim.simfs import SimFS, Patches
import shutil, tempfile, pathlib, codecs, glob
fs=SimFS({"in.py": b"print(1)\r\n", "old.txt": b"x"*100}, ["sub"], roles={"in.py":"IN","out.txt":"OUT"})
p=Patches(fs); p.install(); p.install_determinism(1)
try:
    # pathlib
    t=pathlib.Path("in.py").read_text(encoding="utf8"); assert t=="print(1)\n", repr(t)
    pathlib.Path("sub/deep").mkdir(parents=True, exist_ok=True)
    pathlib.Path("sub/deep/o.txt").write_text("héllo", encoding="utf8")
    assert pathlib.Path("sub/deep/o.txt").stat().st_size==6
    assert pathlib.Path("sub/deep/o.txt").resolve()==pathlib.Path("/sim/sub/deep/o.txt")
    # shutil + tempfile dir
    with tempfile.TemporaryDirectory(dir=".") as td:
        tmp=os.path.join(td,"t.txt")
        with open(tmp,"w",encoding="utf8") as f: f.write("abc")
        shutil.copy2(tmp,"out.txt")
        shutil.move(tmp,"moved.txt")
    assert not os.path.exists(td), td
    assert open("out.txt").read()=="abc" and open("moved.txt").read()=="abc"
    # low-level + dup
    fd=os.open("ll.txt", os.O_WRONLY|os.O_CREAT|os.O_TRUNC, 0o644); fd2=os.dup(fd)
    n=os.write(fd2,b"12345"); os.ftruncate(fd,3); assert os.fstat(fd).st_size==3; os.fsync(fd); os.close(fd2); os.close(fd)
    # FileIO explicit
    raw=io.FileIO("fio.txt","w"); bw=io.BufferedWriter(raw); tw=io.TextIOWrapper(bw,encoding="utf8"); tw.write("zz"); tw.close()
    assert open("fio.txt","rb").read()==b"zz"
    # codecs
    with codecs.open("c.txt","w",encoding="utf-8") as f: f.write("é")
    assert codecs.open("c.txt","r",encoding="utf-8").read()=="é"
    # hard link publish
    os.link("fio.txt","pub.txt"); assert os.path.samefile("fio.txt","pub.txt"); os.unlink("fio.txt"); assert open("pub.txt").read()=="zz"
    os.symlink("pub.txt","ln.txt"); assert os.path.islink("ln.txt") and open("ln.txt").read()=="zz"
    # a symbolic link to a DIRECTORY followed by '..': the kernel follows the link first
    os.makedirs("real/sub2"); os.symlink("real/sub2","dlnk")
    with open("dlnk/../phys.txt","w") as f: f.write("p")
    assert os.path.exists("real/phys.txt") and not os.path.exists("phys.txt"), sorted(fs.files)
    assert os.path.abspath("dlnk/../phys.txt")=="/sim/phys.txt"            # lexical, like the real abspath
    assert os.path.realpath("dlnk/../phys.txt")=="/sim/real/phys.txt", os.path.realpath("dlnk/../phys.txt")
    assert os.stat("dlnk/../phys.txt").st_size==1 and os.path.isdir("dlnk/..") and os.path.isdir("dlnk")
    # a non-blocking stdout that is full: the raw write returns None and the buffered layer raises BlockingIOError
    import select; assert select.select([], [sys.stdout], [], 1)[1]
    # the BrokenPipeError idiom of the Python documentation: stdout redirected to the null device
    dn=os.open(os.devnull, os.O_WRONLY); assert os.write(dn, b"gone")==4; os.close(dn)
    with open(os.devnull, "w") as f: f.write("x")
    assert open(os.devnull).read()=="" and "/dev/null" not in fs.snapshot()["files"]
    names=sorted(e.name for e in os.scandir(".")); print(names)
    print(sorted(glob.glob("*.txt")))
    os.truncate("old.txt", 10); assert os.path.getsize("old.txt")==10
    print("ALL OK; passthrough:", fs.passthrough)
finally:
    p.uninstall()
print(os.listdir("/tmp")[:3])
