# type: ignore

a = 1
print(a)

b, (c, d, [e, f]) = (1, (2, 3, (4, 5)))
print(b, c, d, e, f)

g = [1, 2, 3, 4]
g[0] = -1
print(g)
g[1:] = [5, 6, 7]
print(g)

h = i, j = (3, 4)
print(h, i, j)

Foo = type("Foo", (), {"a": 0})
foo = Foo()
foo.a = 10
print(foo.a)

ann_only: int
ann_var: int = 0
print(ann_var)

o, *p, q, r = range(8)
print(o, p, q, r)

*s, t, u = range(8)
print(s, t, u)

v, w, *x = range(8)
print(v, w, x)
