if True:
    print("this always prints")
else:
    print("this never prints")
