"""Coordinator side: template fleet, job distribution, replay in a fresh interpreter."""
from __future__ import annotations

import json
import os
import queue
import shutil
import subprocess
import sys
import tempfile
import threading

from .core import VERIF_DIR, HarnessError, derive_seed

PY312 = "/venv/bin/python"
PY311 = "/usr/bin/python3.11"

# interpreter start-up flags a template may run under (index stored as `opt` in the template identity)
PYFLAGS = {0: [], 1: ["-O"], 2: ["-X", "dev"], 3: ["-W", "error"], 4: ["-OO"]}

_BOOT = (
    "import sys; sys.path.insert(0, %r); from sim import worker; sys.exit(worker.main(sys.argv[1:]))" % VERIF_DIR
)


def _noaslr_prefix() -> list:
    """Address-space layout is a source of nondeterminism (id()-ordered containers): templates run
    with ASLR disabled so that object addresses are a pure function of the execution."""
    global _NOASLR
    if _NOASLR is None:
        _NOASLR = []
        exe = shutil.which("setarch")
        if exe:
            cand = [exe, os.uname().machine, "-R"]
            try:
                if subprocess.run(cand + ["/bin/true"], capture_output=True, timeout=20).returncode == 0:
                    _NOASLR = cand
            except (OSError, subprocess.SubprocessError):
                pass
    return list(_NOASLR)


_NOASLR = None


class Worker:
    def __init__(self, wid: int, exe: str, hashseed: int, repo: str, logdir: str, pad: int = 0, opt: int = 0):
        self.wid = wid
        self.exe = exe
        self.pad = int(pad)
        self.opt = int(opt)
        self.hashseed = int(hashseed)
        self.repo = repo
        self.logpath = os.path.join(logdir, "worker-%d.log" % wid)
        self.log = open(self.logpath, "wb")
        env = {
            "PATH": os.environ.get("PATH", "/usr/bin:/bin"),
            "HOME": "/sim/home",  # a simulated path: ~ expansion can never reach the real disk
            "PYTHONHASHSEED": str(self.hashseed),
            "PYTHONDONTWRITEBYTECODE": "1",
            "LC_ALL": "C.UTF-8",
            "VERIF_HEAP_PAD": str(self.pad),
            "VERIF_PYFLAGS_INDEX": str(self.opt),
        }
        self.proc = subprocess.Popen(
            _noaslr_prefix() + [exe, "-P"] + PYFLAGS.get(self.opt, []) + ["-c", _BOOT, "--repo", repo, "--id", str(wid)],
            stdin=subprocess.PIPE, stdout=subprocess.PIPE, stderr=self.log, env=env, cwd=os.path.join(logdir, "cwd"),
            text=True, encoding="utf-8", bufsize=1,
        )
        self.lock = threading.Lock()
        self.ident = None

    def wait_ready(self):
        line = self.proc.stdout.readline()
        if not line:
            raise HarnessError("worker %d died during start-up; log:\n%s" % (self.wid, self.tail()))
        msg = json.loads(line)
        if "fatal" in msg:
            raise HarnessError("worker %d: %s" % (self.wid, msg["fatal"]))
        self.ident = msg["ready"]
        return self.ident

    def request(self, req: dict):
        with self.lock:
            try:
                self.proc.stdin.write(json.dumps(req, separators=(",", ":")) + "\n")
                self.proc.stdin.flush()
                line = self.proc.stdout.readline()
            except (BrokenPipeError, OSError) as e:
                raise HarnessError("worker %d pipe error %s; log:\n%s" % (self.wid, e, self.tail()))
        if not line:
            raise HarnessError("worker %d died; log:\n%s" % (self.wid, self.tail()))
        resp = json.loads(line)
        if "harness_error" in resp:
            raise HarnessError("worker %d (%s hashseed=%d): %s\nlog tail:\n%s" % (
                self.wid, self.exe, self.hashseed, resp["harness_error"], self.tail()))
        return resp["ok"]

    def tail(self, n=3000):
        try:
            self.log.flush()
            with open(self.logpath, "rb") as f:
                data = f.read()
            return data[-n:].decode("utf-8", "replace")
        except OSError:
            return ""

    def close(self):
        try:
            if self.proc.poll() is None:
                try:
                    self.proc.stdin.write('{"cmd":"quit"}\n')
                    self.proc.stdin.flush()
                    self.proc.stdin.close()
                except (BrokenPipeError, OSError, ValueError):
                    pass
                try:
                    self.proc.wait(timeout=5)
                except subprocess.TimeoutExpired:
                    self.proc.kill()
                    self.proc.wait()
        finally:
            self.log.close()


def hashseeds_for(master: int, n: int) -> list:
    out = []
    i = 0
    while len(out) < n:
        h = derive_seed(master, "hashseed", i) % 4294967296
        i += 1
        if h not in out:
            out.append(h)
    return out


class Fleet:
    """A set of templates grouped by (exe, hashseed).  ``groups[g]`` is a list of identical
    workers; jobs are pinned to a group (template identity is part of a run) and scheduled
    dynamically inside it.  ``jobs`` bounds the number of requests in flight."""

    def __init__(self, repo: str, specs: list, replicas: int = 1, jobs: int = 16):
        self.repo = os.path.realpath(repo)
        self.logdir = tempfile.mkdtemp(prefix="verif-fleet-")
        os.mkdir(os.path.join(self.logdir, "cwd"))  # empty real cwd of every template and child
        self.jobs = max(1, jobs)
        self.groups: list[list[Worker]] = []
        self.specs = specs
        wid = 0
        try:
            for spec in specs:
                exe, hs = spec[0], spec[1]
                pad = spec[2] if len(spec) > 2 else 0
                opt = spec[3] if len(spec) > 3 else 0
                grp = []
                for _ in range(replicas):
                    grp.append(Worker(wid, exe, hs, self.repo, self.logdir, pad, opt))
                    wid += 1
                self.groups.append(grp)
            for grp in self.groups:
                for w in grp:
                    w.wait_ready()
        except BaseException:
            self.close()
            raise

    def workers(self):
        return [w for g in self.groups for w in g]

    def group_ident(self, g: int) -> dict:
        return dict(self.groups[g][0].ident)

    def run(self, jobs: list, progress=None) -> list:
        """jobs: list of (group_index, request).  Returns responses in job order.  The first
        HarnessError aborts the whole batch."""
        results = [None] * len(jobs)
        qs = [queue.Queue() for _ in self.groups]
        for idx, (g, req) in enumerate(jobs):
            qs[g].put((idx, req))
        sem = threading.Semaphore(self.jobs)
        err: list = []
        done = [0]
        dlock = threading.Lock()

        def loop(g, w):
            while not err:
                try:
                    idx, req = qs[g].get_nowait()
                except queue.Empty:
                    return
                with sem:
                    if err:
                        return
                    try:
                        results[idx] = w.request(req)
                    except BaseException as e:  # noqa: BLE001
                        err.append(e)
                        return
                with dlock:
                    done[0] += 1
                    if progress:
                        progress(done[0], len(jobs))

        threads = []
        for g, grp in enumerate(self.groups):
            for w in grp:
                t = threading.Thread(target=loop, args=(g, w), daemon=True)
                t.start()
                threads.append(t)
        for t in threads:
            t.join()
        if err:
            e = err[0]
            if isinstance(e, HarnessError):
                raise e
            raise HarnessError("coordinator thread failed: %r" % (e,))
        return results

    def stray_files(self) -> list:
        """Real files created in the (empty) real working directory of the templates: a simulated
        process reached the disk through a path the model does not cover."""
        try:
            return sorted(os.listdir(os.path.join(self.logdir, "cwd")))
        except OSError:
            return []

    def close(self):
        for w in self.workers():
            try:
                w.close()
            except Exception:
                pass
        shutil.rmtree(self.logdir, ignore_errors=True)

    def __enter__(self):
        return self

    def __exit__(self, *a):
        self.close()


def fresh_worker(repo: str, exe: str, hashseed: int, pad: int = 0, opt: int = 0) -> Fleet:
    """A brand-new interpreter for replay verification."""
    return Fleet(repo, [(exe, hashseed, pad, opt)], replicas=1, jobs=1)


def default_jobs() -> int:
    try:
        return int(os.environ.get("VERIF_JOBS", "") or (os.cpu_count() or 4))
    except ValueError:
        return os.cpu_count() or 4


def eprint(*a):
    print(*a, file=sys.stderr, flush=True)
