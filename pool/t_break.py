print("=== Break from For ===")
for i in range(10):
    if i > 5:
        break
        print("this never prints")
    print(i)

print("=== Break from While ===")
i = 0
while i < 10:
    i = i + 1
    if i > 5:
        break
        print("this never prints")
    print(i)


print("=== Break inside If ===")
for i in range(10):
    if 1:
        if i > 5:
            break
            print("this never prints")
    print(i)

print("=== Break inside If-Else ===")
for i in range(10):
    if 0:
        pass
    else:
        if i > 5:
            break
            print("this never prints")
    print(i)

print("=== Break inside While-Else ===")
for i in range(10):
    while 0:
        pass
    else:
        break
        print("this never prints")
    print("this never prints")

print("=== Break inside For-Else ===")
for i in range(10):
    for _ in []:
        pass
    else:
        break
        print("this never prints")
    print("this never prints")


print("=== Break inside multiple blocks ===")
for i in range(10):
    for _ in []:
        pass
    else:
        while 0:
            pass
        else:
            if 1:
                if i > 5:
                    break
                    print("this never prints")
                print(i, i, i, i)
            print(i, i, i)
        print(i, i)
    print(i)
