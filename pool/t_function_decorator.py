def dec1(func):
    print("dec1 called")
    return func


def dec2(func):
    print("dec2 called")
    return func


@dec2
@dec1
def func():
    pass
