# Test if the namespace of comprehension expr is isolated
# type: ignore


def func():
    i = 0

    def func2():
        nonlocal i
        i = 2
        [print(i) for i in range(10)]  # listcomp
        list(print(i) for i in range(10))  # genexpr
        {print(i) for i in range(10)}  # setcomp
        {print(i): None for i in range(10)}  # dictcomp

    func2()
    print(i)


func()


def func():
    i = 0

    class Foo:
        nonlocal i
        # test: comp inside a class
        [print(i) for i in range(10)]

        # test: nested comp inside a class, with global names used.
        [[print(i), [print(bin(j)) for j in range(5)]] for i in range(10)]

    print(i)


func()


def func():
    i, j, k, m = 0, 0, 0, 0

    def func2():
        nonlocal i, j, k, m
        i, j, k, m = 9, 9, 9, 9
        lst = [(1, (2, 3)), (6, (7, 8))]

        # test: multi generator + tuple target
        [print(m, k, j, i) for (i, (j, k)) in lst for m in range(4)]

    func2()
    print(m, k, j, i)


func()


def func():
    i, j, k = 0, 0, 0

    def func2():
        nonlocal i, j, k
        i, j, k = 9, 9, 9

        # test: nested comp
        [
            [
                print(i),
                [
                    [
                        print(j),
                        [print(k) for k in range(4)],
                    ]
                    for j in range(4)
                ],
            ]
            for i in range(4)
        ]

    func2()
    print(k, j, i)


func()


# test: a function is named "listcomp"
# "listcomp" is used as the name of listcomp symbol table. (py < 3.12)
# this conflict should be handled properly.
def listcomp(a=[i for i in range(3)]):  # just for test, don't use kwarg like this.
    b = 0

    def func2():
        nonlocal b
        b = 1

    func2()
    print(b)
    print(a)


listcomp()
