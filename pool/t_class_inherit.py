class Foo:
    def awa(self):
        print("AwA")


class Foo2(Foo):
    def awa(self):
        # test if zero-argument super() works
        super().awa()
        print("inherit")

    def ovo(self):
        print("OvO")


class Foo3(Foo):
    def awa(self):
        super(Foo3, self).awa()
        print("inherit")


Foo2().awa()
Foo2().ovo()
Foo3().awa()
