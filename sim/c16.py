def register(tpl):
    pass
