import sys

print(sys.version)

import os.path as path

print(path.join("./hello", "world.py"))

from os.path import join
from os.path import splitext as sext

print(join("./hello", "world.py"))
print(sext("hello_world.py"))
