"""C10 - conversion is a pure function of (source, options) up to fresh-name choice.

Simulated system: the library inside one long-lived process.  A run is a *history* of API
actions (create option object, set option, convert, PRNG manipulation, aborted calls) executed
in a forked child of a pristine template; every conversion in the history is compared with the
same call made as the first and only call of a fresh fork (the reference model).
"""
from __future__ import annotations

import ast as _ast
import gc
import os
import random as _random
import sys

from . import progs
from .core import OPTION_NAMES, OPTION_SPACE, as_value, cjson, derive_seed, digest, normalise, sha_text
from .worker import ChildFailure, fork_run

POOL = progs.load_pool()
POOL_KEYS = sorted(POOL)
OK_KEYS = [k for k in POOL_KEYS if not k.startswith("fail:")]
FAIL_KEYS = [k for k in POOL_KEYS if k.startswith("fail:")]
SMALL_KEYS = [k for k in OK_KEYS if k.startswith("short:")]

ILLEGAL_VALUES = ["bogus", "", "LIST", None, 1, "if_expr ", ["list"]]
ABORT_EXC = ["SimAbort", "KeyboardInterrupt", "MemoryError"]


class SimAbort(BaseException):
    """Injected crash of the call in progress (not an Exception: ordinary handlers in the
    package must not be able to swallow it)."""


_EXC = {"SimAbort": SimAbort, "KeyboardInterrupt": KeyboardInterrupt, "MemoryError": MemoryError}


def mkey(model: dict) -> str:
    """Key of an option model: value for every option that was set, '-' for untouched."""
    return "|".join(_enc(model[n]) if n in model else "-" for n in OPTION_NAMES)


def _enc(v) -> str:
    if isinstance(v, str) and not v.startswith("#") and "|" not in v and v != "-":
        return v
    return "#" + cjson(v).replace("|", "\\u007c")


def _dec(s: str):
    if s.startswith("#"):
        import json

        return json.loads(s[1:])
    return s


def src_of(op: dict) -> str:
    if "src" in op:
        return op["src"]
    return POOL[op["prog"]]


def prog_id(op: dict) -> str:
    if "src" in op:
        return "inline:" + sha_text(op["src"])[:16]
    return op["prog"]


# ------------------------------------------------------------------------------------------
# child side
# ------------------------------------------------------------------------------------------


class Injector:
    """Counts line events inside the package (and stdlib ast/random) and raises an exception at
    a chosen one.  mode: 'count' | 'line' (k-th line event) | 'call' (first line of the j-th call
    of function `func`, identified by qualname)."""

    def __init__(self, pkgdir: str, mode: str, k=0, func=None, j=0, exc="SimAbort"):
        self.pkgdir = pkgdir
        self.mode = mode
        self.k = k
        self.func = func
        self.j = j
        self.exc = _EXC[exc]
        self.lines = 0
        self.calls: dict[str, int] = {}
        self.fired = False
        self.site = None
        self.inflight = None
        self._tracked: dict[str, bool] = {}
        self._with_lines: dict = {}
        self._armed = False
        self._extra = (os.path.realpath(_ast.__file__), os.path.realpath(_random.__file__))

    def _is_tracked(self, fn: str) -> bool:
        t = self._tracked.get(fn)
        if t is None:
            t = fn.startswith(self.pkgdir) or fn in self._extra
            self._tracked[fn] = t
        return t

    def trace(self, frame, event, arg):
        code = frame.f_code
        if not self._is_tracked(code.co_filename):
            return None
        if event == "call":
            if code.co_filename.startswith(self.pkgdir):
                qn = code.co_qualname
                n = self.calls.get(qn, 0) + 1
                self.calls[qn] = n
                if self.mode == "call" and qn == self.func and n == self.j:
                    self._armed = True
            return self.trace
        if event == "line":
            self.lines += 1
            if self.mode == "line":
                if self.lines == self.k:
                    self._armed = True
            if self._armed:
                # CPython never delivers an asynchronous exception between __enter__ and the body of a
                # `with` statement, nor between the end of the body and the call of __exit__ (no
                # eval-breaker check there, bpo-29988); a line event on the `with` line is such a
                # point (entry, and the clean-up which is attributed to the `with` line).  Firing there
                # would be a crash point no real execution has: defer to the next line event.
                if self._is_with_line(code, frame.f_lineno):
                    return self.trace
                self._fire(frame)
        return self.trace

    def _is_with_line(self, code, lineno) -> bool:
        key = (code.co_filename, lineno)
        r = self._with_lines.get(key)
        if r is None:
            import linecache

            text = linecache.getline(code.co_filename, lineno).lstrip()
            r = text.startswith(("with ", "with(", "async with ", "async with("))
            self._with_lines[key] = r
        return r

    def _fire(self, frame):
        self.fired = True
        self._armed = False
        self.mode = "off"
        code = frame.f_code
        fn = code.co_filename
        if fn.startswith(self.pkgdir):
            fn = "oneliner/" + fn[len(self.pkgdir):].lstrip("/")
        else:
            fn = "stdlib/" + os.path.basename(fn)
        self.site = "%s:%s:%d" % (fn, code.co_qualname, frame.f_lineno)
        self.inflight = _inflight_probe(frame)
        raise self.exc("injected at " + self.site)


def _inflight_probe(frame) -> dict:
    """Probe only: what in-flight conversion state exists at the abort instant (walks the Python
    stack for the converter's explicit stacks).  Tolerant of refactors: any failure -> {}."""
    out = {}
    try:
        f = frame
        while f is not None:
            loc = f.f_locals
            if "nsp_stack" in loc and "pending_node_stack" in loc:
                out["pending_depth"] = len(loc["pending_node_stack"])
                out["loop_depth"] = max((len(getattr(n, "loop_stack", ())) for n in loc["nsp_stack"]), default=0)
                out["comp_depth"] = max((len(getattr(n, "comp_stack", ())) for n in loc["nsp_stack"]), default=0)
            if f.f_code.co_name == "expr_unparse" and "stack" in loc:
                out["unparse_depth"] = len(loc["stack"])
            if f.f_code.co_name == "cvt" and "self" in loc:
                out["expr_depth"] = len(getattr(loc["self"], "pending_stack", ()))
            f = f.f_back
    except Exception:
        pass
    return out


def _install_sim_env() -> dict:
    import time as _time

    env = {"clock": 1_700_000_000.0, "pid": 4242, "ticks": 0}

    def now():
        env["ticks"] += 1
        return env["clock"] + env["ticks"] * 1e-6

    _time.time = now
    _time.monotonic = now
    _time.perf_counter = now
    _time.time_ns = lambda: int(now() * 1e9)
    _time.monotonic_ns = lambda: int(now() * 1e9)
    os.getpid = lambda: env["pid"]
    return env


def _call_at_depth(n: int, fn):
    """Call fn() from n extra Python frames (the caller's stack depth is not an input)."""
    if n <= 0:
        return fn()
    return _call_at_depth(n - 1, fn)


def _pkgdir() -> str:
    import oneliner

    return os.path.dirname(os.path.realpath(oneliner.__file__))


_ADDR_RE = __import__("re").compile(r"0x[0-9a-fA-F]{4,}")


def _msg(e: BaseException, n: int = 300) -> str:
    """Exception text with object addresses masked (`<ast.Name object at 0x7f...>`): an address
    in an error message is not part of any result."""
    return _ADDR_RE.sub("0x?", str(e))[:n]


def _outcome_of_call(fn) -> dict:
    """Run fn() -> text, classify.  SimAbort/KeyboardInterrupt propagate as outcomes too."""
    try:
        text = fn()
    except RecursionError:
        return {"out": "exc", "exc": ["RecursionError", ""]}
    except MemoryError:
        return {"out": "exc", "exc": ["MemoryError", ""]}
    except BaseException as e:  # noqa: BLE001 - the outcome *is* the exception
        return {"out": "exc", "exc": [type(e).__name__, _msg(e)]}
    if not isinstance(text, str):
        return {"out": "nonstr", "repr": repr(text)[:200]}
    norm = normalise(text)
    return {"out": "ok", "sha": sha_text(norm), "len": len(text), "single_line": "\n" not in text}


def _apply_model(obj, model: dict):
    for n in OPTION_NAMES:
        if n in model:
            setattr(obj, n, as_value(model[n]))


def child_ref(arg) -> dict:
    """Reference model entry: first and only API call of a fresh fork."""
    import oneliner
    from oneliner.config import Configs

    src, model, with_text = arg["src"], arg["model"], arg.get("text", False)
    _install_sim_env()
    if arg.get("reclimit"):
        sys.setrecursionlimit(arg["reclimit"])  # what the caller of the history had set before the call
    if model is None:
        res = _outcome_of_call(lambda: oneliner.convert_code_string(src))
        return res
    o = Configs()
    try:
        _apply_model(o, model)
    except BaseException as e:  # noqa: BLE001
        # the model holds a value the API refuses to set on a fresh object (it was read back from
        # a copied/deleted-from object): that state cannot be produced in a fresh process, so there
        # is nothing to compare with
        return {"out": "unreachable-model", "exc": [type(e).__name__, str(e)[:200]]}
    if with_text:
        try:
            text = oneliner.convert_code_string(src, configs=o)
            return {"out": "ok", "text": text, "norm": normalise(text)}
        except BaseException as e:  # noqa: BLE001
            return {"out": "exc", "exc": [type(e).__name__, _msg(e)]}
    return _outcome_of_call(lambda: oneliner.convert_code_string(src, configs=o))


def child_count(arg) -> dict:
    """Fault-free traced call: number of line events and calls per function (to place aborts)."""
    import oneliner
    from oneliner.config import Configs

    src, model = arg["src"], arg["model"]
    o = Configs()
    _apply_model(o, model)
    inj = Injector(_pkgdir(), "count")
    sys.settrace(inj.trace)
    try:
        oneliner.convert_code_string(src, configs=o)
        ok = True
    except BaseException:  # noqa: BLE001
        ok = False
    finally:
        sys.settrace(None)
    return {"lines": inj.lines, "calls": inj.calls, "ok": ok}


def child_count_set(arg) -> dict:
    from oneliner.config import Configs

    o = Configs()
    inj = Injector(_pkgdir(), "count")
    sys.settrace(inj.trace)
    try:
        setattr(o, arg["name"], as_value(arg["value"]))
    except BaseException:  # noqa: BLE001
        pass
    finally:
        sys.settrace(None)
    return {"lines": inj.lines}


def _monitor_flags() -> str:
    """O5 monitor: digest of objects shared by all conversions.  Internals may be refactored
    away; anything missing is reported as absent, never an error."""
    parts = []
    try:
        from oneliner import namespaces as ns

        for n in ("use_itertools", "use_importlib", "use_preset_iter_wrapper"):
            parts.append((n, repr(ns.NamespaceGlobal.__dict__.get(n, "absent"))))
    except Exception:
        parts.append(("namespaces", "absent"))
    try:
        from oneliner import pending_nodes as pn

        for n in ("interrupt_cnt", "break_cnt"):
            parts.append((n, repr(pn._PendingLoop.__dict__.get(n, "absent"))))
        parts.append(("opdict", len(pn.PendingAugAssign._op_dict)))
    except Exception:
        parts.append(("pending_nodes", "absent"))
    try:
        from oneliner.presets import iter_wrapper as iw

        parts.append(("preset_body", sha_text(_ast.dump(iw.iter_wrapper_body))[:12]))
        parts.append(("preset_name", sha_text(_ast.dump(iw.iter_wrapper_name))[:12]))
    except Exception:
        parts.append(("preset", "absent"))
    try:
        from oneliner.config import Configs

        for n in OPTION_NAMES:
            d = Configs.__dict__.get(n)
            parts.append(("cls_" + n, repr(getattr(d, "value", "absent"))))
    except Exception:
        parts.append(("config", "absent"))
    try:
        import warnings as _w

        parts.append(("recursionlimit", sys.getrecursionlimit()))
        parts.append(("int_max_str_digits", sys.get_int_max_str_digits() if hasattr(sys, "get_int_max_str_digits") else None))
        parts.append(("switchinterval", sys.getswitchinterval()))
        parts.append(("tracefn", sys.gettrace() is None))
        parts.append(("warnings_filters", len(_w.filters)))
        parts.append(("ast_unparse", _ast.unparse.__module__ + "." + _ast.unparse.__qualname__))
    except Exception:
        parts.append(("interp", "absent"))
    return digest(parts)[:16]


def _read_obj(o) -> dict:
    out = {}
    for n in OPTION_NAMES:
        try:
            v = getattr(o, n)
            out[n] = v if isinstance(v, (str, int, type(None))) else repr(v)
        except BaseException as e:  # noqa: BLE001
            out[n] = "!" + type(e).__name__
    return out


def child_history(desc: dict) -> dict:
    """Execute a history.  Returns the event log (one event per op, plus extension events)."""
    import random

    import oneliner
    from oneliner.config import Configs

    pkgdir = _pkgdir()
    objs: dict[str, object] = {}
    order: list[str] = []
    models: dict[str, dict] = {}
    saved_states: list = []
    events = []
    # clocks and the process id are behind the simulator: a logical clock that only the `env clock`
    # action advances, and a fixed pid (changed by `env pid`); the reference child sees the same
    sim_env = _install_sim_env()
    flags0 = _monitor_flags()
    caller_env = {"reclimit": None}
    nonlocal_flags = [flags0]
    fresh_reads0 = None
    mon_tripped = False
    total_lines = 0

    def convert(src, oid, filename=None, depth=0, how=None):
        kw = {}
        if filename is not None:
            kw["filename"] = filename
        if oid is not None:
            kw["configs"] = objs[oid]
        if depth:
            return _call_at_depth(depth, lambda: oneliner.convert_code_string(src, **kw))
        if how == "thread":
            # the same call made from another thread (sequentially): thread identity is not an input
            import threading

            box = {}

            def work():
                try:
                    box["r"] = oneliner.convert_code_string(src, **kw)
                except BaseException as e:  # noqa: BLE001
                    box["e"] = e

            t = threading.Thread(target=work)
            t.start()
            t.join()
            if "e" in box:
                raise box["e"]
            return box["r"]
        if how == "main_namespace":
            # the caller is a script (`__name__ == "__main__"`, its own `__file__`)
            ns = {"__name__": "__main__", "__file__": "/somewhere/tool.py", "convert": oneliner.convert_code_string, "src": src, "kw": kw}
            exec("result = convert(src, **kw)", ns)
            return ns["result"]
        return oneliner.convert_code_string(src, **kw)

    def run_op(op):
        nonlocal total_lines
        kind = op["op"]
        ev = {"op": kind}
        if kind == "new":
            oid = op["id"]
            if oid in objs:
                ev["skip"] = True
                return ev
            objs[oid] = Configs()
            order.append(oid)
            models[oid] = {}
            return ev
        if kind == "del":
            oid = op["obj"]
            if oid not in objs:
                ev["skip"] = True
                return ev
            del objs[oid]
            del models[oid]
            order.remove(oid)
            if op.get("gc"):
                gc.collect()
            return ev
        if kind == "burst":
            # many conversions in a row (state that changes behaviour after N calls)
            oid = op.get("obj")
            if oid is not None and oid not in objs:
                ev["skip"] = True
                return ev
            src = src_of(op)
            ev["prog"] = prog_id(op)
            ev["obj"] = oid
            ev["mkey"] = None if oid is None else mkey(models[oid])
            if caller_env["reclimit"]:
                ev["reclimit"] = caller_env["reclimit"]
            outs = {}
            first_at = {}
            for i in range(op["n"]):
                r = _outcome_of_call(lambda: convert(src, oid))
                key = r.get("sha") or cjson(r.get("exc"))
                outs[key] = r
                first_at.setdefault(key, i)
            ev["burst"] = [dict(outs[k], first_at=first_at[k]) for k in sorted(outs)]
            return ev
        if kind == "env":
            # the caller's process state changes between calls; none of it is an input of a conversion
            what = op["what"]
            if what == "chdir":
                os.chdir(op["value"])
            elif what == "argv":
                sys.argv = list(op["value"])
            elif what == "environ":
                os.environ[op["name"]] = op["value"]
            elif what == "recursionlimit":
                sys.setrecursionlimit(op["value"])
                caller_env["reclimit"] = op["value"]
            elif what == "stdout":
                import io as _io

                # the caller's stdout is an ASCII / Latin-1 terminal, a pipe, or closed
                sys.stdout = None if op["value"] is None else _io.TextIOWrapper(_io.BytesIO(), encoding=op["value"], errors="strict")
            elif what == "clock":
                sim_env["clock"] += op["value"]          # hours or days pass between two calls
            elif what == "pid":
                sim_env["pid"] = op["value"]
            elif what == "gc":
                if op["value"] == "disable":
                    gc.disable()
                elif op["value"] == "enable":
                    gc.enable()
                else:
                    gc.set_threshold(*op["value"])
            elif what == "import":
                try:
                    __import__(op["value"])
                except ImportError:
                    ev["skip"] = True
            elif what == "locale":
                import locale as _locale

                try:
                    _locale.setlocale(_locale.LC_ALL, op["value"])
                except _locale.Error:
                    ev["skip"] = True
            return ev
        if kind == "churn":
            # create many option objects, set an option on each, drop them all: afterwards the
            # allocator's free lists are full of addresses that once belonged to option objects
            tmp = []
            try:
                for i in range(op["n"]):
                    t = Configs()
                    setattr(t, op["name"], as_value(op["value"]))
                    tmp.append(t)
                ev["out"] = "ok"
            except BaseException as e:  # noqa: BLE001
                ev["out"] = "exc"
                ev["exc"] = [type(e).__name__, _msg(e, 200)]
            del tmp
            t = None
            if op.get("gc"):
                gc.collect()
            return ev
        if kind == "copy":
            import copy

            if op["src"] not in objs or op["id"] in objs:
                ev["skip"] = True
                return ev
            try:
                if op.get("pickle"):
                    import pickle

                    objs[op["id"]] = pickle.loads(pickle.dumps(objs[op["src"]], op["pickle"]))
                else:
                    objs[op["id"]] = copy.copy(objs[op["src"]]) if op.get("shallow") else copy.deepcopy(objs[op["src"]])
                # no assumption about what a copy carries over: the model of the new object is
                # what the object itself reports right after the copy
                rb = _read_obj(objs[op["id"]])
                models[op["id"]] = {n: rb[n] for n in OPTION_NAMES if isinstance(rb.get(n), str) and not rb[n].startswith("!")}
                ev["readback"] = rb
                order.append(op["id"])
                ev["out"] = "ok"
            except BaseException as e:  # noqa: BLE001
                ev["out"] = "exc"
                ev["exc"] = [type(e).__name__, _msg(e, 200)]
            return ev
        if kind == "delattr":
            oid = op["obj"]
            if oid not in objs:
                ev["skip"] = True
                return ev
            try:
                delattr(objs[oid], op["name"])
                ev["out"] = "ok"
                # what a successful delete means is not stated by the property: pin the model to
                # what the object reports afterwards
                got = _read_obj(objs[oid]).get(op["name"])
                ev["readback"] = got
                if isinstance(got, str) and not got.startswith("!"):
                    models[oid][op["name"]] = got
                else:
                    models[oid].pop(op["name"], None)
            except BaseException as e:  # noqa: BLE001
                ev["out"] = "exc"
                ev["exc"] = [type(e).__name__, _msg(e, 200)]
            return ev
        if kind in ("set", "abort_set"):
            oid = op["obj"]
            if oid not in objs:
                ev["skip"] = True
                return ev
            o = objs[oid]
            name, value = op["name"], as_value(op["value"], bool(op.get("fresh")))
            if kind == "set":
                try:
                    setattr(o, name, value)
                    ev["out"] = "ok"
                    models[oid][name] = value
                except BaseException as e:  # noqa: BLE001
                    ev["out"] = "exc"
                    ev["exc"] = [type(e).__name__, _msg(e, 200)]
                return ev
            inj = Injector(pkgdir, "line", k=op["k"], exc=op.get("exc", "SimAbort"))
            sys.settrace(inj.trace)
            try:
                setattr(o, name, value)
                ev["out"] = "ok"
            except BaseException as e:  # noqa: BLE001
                ev["out"] = "exc"
                ev["exc"] = [type(e).__name__, _msg(e, 200)]
            finally:
                sys.settrace(None)
            total_lines += inj.lines
            ev["fired"] = inj.fired
            ev["site"] = inj.site
            # the model is pinned to whatever a later conversion should see: old or new
            old = models[oid].get(name, "-")
            ev["old"] = old
            if ev["out"] == "ok":
                models[oid][name] = value
                ev["pinned"] = "new"
            else:
                # aborted (or rejected) set: old or new value are both acceptable; pin by reading
                got = _read_obj(o).get(name)
                ev["readback"] = got
                if value in OPTION_SPACE.get(name, []) and got == value:
                    models[oid][name] = value
                    ev["pinned"] = "new"
                else:
                    ev["pinned"] = "old"
            return ev
        if kind in ("conv", "abort_conv"):
            oid = op.get("obj")
            if oid is not None and oid not in objs:
                ev["skip"] = True
                return ev
            src = src_of(op)
            ev["prog"] = prog_id(op)
            ev["obj"] = oid
            ev["mkey"] = None if oid is None else mkey(models[oid])
            if caller_env["reclimit"]:
                ev["reclimit"] = caller_env["reclimit"]
            fname = op.get("filename")
            if fname is not None:
                ev["filename"] = fname
            depth = op.get("depth", 0)
            if kind == "conv":
                ev.update(_outcome_of_call(lambda: convert(src, oid, fname, depth, op.get("how"))))
                return ev
            inj = Injector(pkgdir, op["mode"], k=op.get("k", 0), func=op.get("func"), j=op.get("j", 0),
                           exc=op.get("exc", "SimAbort"))
            sys.settrace(inj.trace)
            try:
                res = _outcome_of_call(lambda: convert(src, oid, fname))
            finally:
                sys.settrace(None)
            total_lines += inj.lines
            ev.update(res)
            ev["fired"] = inj.fired
            ev["site"] = inj.site
            ev["inflight"] = inj.inflight
            return ev
        if kind == "reseed":
            random.seed(op["n"])
            return ev
        if kind == "draw":
            for _ in range(op["k"]):
                random.random()
            return ev
        if kind == "savestate":
            saved_states.append(random.getstate())
            return ev
        if kind == "setstate":
            if saved_states:
                random.setstate(saved_states[op["i"] % len(saved_states)])
            else:
                ev["skip"] = True
            return ev
        if kind == "gc":
            gc.collect()
            return ev
        raise ValueError("unknown op %r" % kind)

    def monitors(ev):
        nonlocal mon_tripped, fresh_reads0
        reads = {oid: _read_obj(objs[oid]) for oid in order}
        bad = []
        for oid in order:
            for n in OPTION_NAMES:
                if n in models[oid] and reads[oid].get(n) != models[oid][n]:
                    bad.append("%s.%s" % (oid, n))
        fl = _monitor_flags()
        ev["flags"] = fl
        if ev.get("op") == "env":
            # the caller changed process state on purpose: that is the new baseline
            nonlocal_flags[0] = fl
        if fl != nonlocal_flags[0]:
            bad.append("flags")
        if bad:
            ev["mon"] = bad
            mon_tripped = True

    for op in desc["ops"]:
        ev = run_op(op)
        monitors(ev)
        events.append(ev)

    # O4/O5 monitors are early warnings, not oracles: when one trips the history is extended by
    # conversions of the sentinel with every live object and with no options, and only an O1
    # failure on one of those conversions is reported.
    if mon_tripped and desc.get("extend", True):
        for oid in [None] + order:
            ev = run_op({"op": "conv", "prog": progs.SENTINEL, "obj": oid})
            ev["ext"] = True
            events.append(ev)
        # ... and by the programs that fail in a fresh process (interpreter-wide state such as the
        # int/str digit limit or the recursion limit can make them convertible)
        for key in FAIL_KEYS:
            if True:  # including the 2 000-statement program: a leaked recursion limit makes it convertible
                ev = run_op({"op": "conv", "prog": key, "obj": None})
                ev["ext"] = True
                ev["ext_prog"] = key
                events.append(ev)
    return {"events": events, "lines": total_lines, "mon_tripped": mon_tripped}


# ------------------------------------------------------------------------------------------
# template side: reference model, oracle, generator, batches
# ------------------------------------------------------------------------------------------


class C10Ctx:
    def __init__(self, tpl):
        self.tpl = tpl
        self.ref_cache: dict[str, dict] = {}
        self.lp_cache: dict[str, dict] = {}
        self.lpset_cache: dict[str, int] = {}
        self.ref_calls = 0

    def ref(self, pid: str, src: str, model_key, model, reclimit=None) -> dict:
        key = pid + "@" + (model_key if model_key is not None else "NONE") + ("" if not reclimit else "@rl%d" % reclimit)
        r = self.ref_cache.get(key)
        if r is None:
            r = fork_run(child_ref, {"src": src, "model": model, "reclimit": reclimit})
            self.ref_cache[key] = r
            self.ref_calls += 1
        return r

    def lp(self, pid: str, src: str, model: dict) -> dict:
        key = pid + "@" + mkey(model)
        r = self.lp_cache.get(key)
        if r is None:
            r = fork_run(child_count, {"src": src, "model": model})
            self.lp_cache[key] = r
        return r

    def lp_set(self, name, value) -> int:
        key = cjson([name, value])
        r = self.lpset_cache.get(key)
        if r is None:
            r = fork_run(child_count_set, {"name": name, "value": value})["lines"]
            self.lpset_cache[key] = r
        return r


def model_from_key(k: str) -> dict:
    vals = k.split("|")
    return {n: _dec(v) for n, v in zip(OPTION_NAMES, vals) if v != "-"}


def same_outcome(a: dict, b: dict) -> bool:
    if a.get("out") != b.get("out"):
        return False
    if a["out"] == "ok":
        return a["sha"] == b["sha"]
    if a["out"] == "exc":
        return a["exc"] == b["exc"]
    return a == b


def judge(ctx: C10Ctx, desc: dict, result: dict) -> list:
    """Oracle O1 over the event log.  Returns a list of violations (possibly empty)."""
    viols = []
    ops = desc["ops"]
    for i, ev in enumerate(result["events"]):
        if ev.get("skip"):
            continue
        kind = ev["op"]
        if kind == "set":
            # an illegal set must raise; a legal one must not (part of 'options passed to that
            # call' being well defined).  Reported only through later conversions (monitor).
            continue
        if kind == "burst":
            op = ops[i]
            src = src_of(op)
            mk = ev["mkey"]
            expect = (ctx.ref(ev["prog"], src, "-|-|-", {}, ev.get("reclimit")) if mk is None
                      else ctx.ref(ev["prog"], src, mk, model_from_key(mk), ev.get("reclimit")))
            for r in ev["burst"]:
                if expect.get("out") == "unreachable-model":
                    break
                if not same_outcome(r, expect):
                    viols.append({"oracle": "O1", "class": "text-differs" if r.get("out") == "ok" == expect.get("out") else
                                  "%s-vs-ref-%s" % (r.get("out"), expect.get("out")), "event": i, "prog": ev["prog"], "mkey": mk,
                                  "got": {k: r.get(k) for k in ("out", "sha", "exc", "len", "first_at")},
                                  "expected": {k: expect.get(k) for k in ("out", "sha", "exc", "len")}, "ext": False})
                    break
            continue
        if kind != "conv":
            continue
        op = ops[i] if i < len(ops) else {"op": "conv", "prog": ev.get("ext_prog") or progs.SENTINEL, "obj": ev.get("obj")}
        src = src_of(op)
        pid = ev["prog"]
        mk = ev["mkey"]
        rl = ev.get("reclimit")
        if mk is None:
            # no options passed: must equal the call with an untouched option object
            expect = ctx.ref(pid, src, "-|-|-", {}, rl)
        else:
            expect = ctx.ref(pid, src, mk, model_from_key(mk), rl)
        if expect.get("out") == "unreachable-model":
            continue
        if ev.get("filename") is not None and ev.get("out") == "exc" and expect.get("out") == "exc" \
                and ev["exc"][0] == expect["exc"][0]:
            continue  # SyntaxError messages legitimately quote the file name passed by the caller
        if op.get("depth") and ev.get("out") == "exc" and ev["exc"][0] == "RecursionError" and expect.get("out") == "ok":
            # stack exhaustion fault: the caller left too little stack for this conversion.  No text was
            # produced, so nothing can differ (like an injected MemoryError); any text that IS produced
            # from a deep stack must still be the reference text, and the next conversion is checked.
            continue
        if not same_outcome(ev, expect):
            if ev.get("out") == "ok" and expect.get("out") == "ok":
                cls = "text-differs"
            elif ev.get("out") == "exc" and expect.get("out") == "exc":
                cls = "exception-differs"
            else:
                cls = "%s-vs-ref-%s" % (ev.get("out"), expect.get("out"))
            viols.append({
                "oracle": "O1",
                "class": cls,
                "event": i,
                "prog": pid,
                "mkey": mk,
                "got": {k: ev.get(k) for k in ("out", "sha", "exc", "len")},
                "expected": {k: expect.get(k) for k in ("out", "sha", "exc", "len")},
                "ext": bool(ev.get("ext")),
            })
    return viols


# -- generator --------------------------------------------------------------------------------


def gen_history(seed: int, ctx: C10Ctx, knobs: dict | None = None) -> dict:
    """Expand a seed into a complete run descriptor (pure function of seed, pool, and the
    fault-free event counts of the working tree)."""
    knobs = knobs or {}
    rng = _random.Random(seed)
    max_len = knobs.get("max_len", 12)
    n_ops = rng.choice([n for n in [1, 2, 3, 3, 4, 4, 5, 5, 6, 6, 6, 8, 10, 12] if n <= max_len])
    # swarm configuration
    sub_pool = rng.sample(OK_KEYS, rng.randint(2, 6))
    inline = []
    if knobs.get("generated", True) and rng.random() < 0.35:
        inline = [progs.gen_program(derive_seed(seed, "prog", i)) for i in range(rng.randint(1, 2))]
    abort_rate = rng.choice([0.0, 0.0, 0.12, 0.3])
    set_rate = rng.choice([0.1, 0.25, 0.45])
    prng_rate = rng.choice([0.0, 0.08, 0.2])
    illegal_rate = rng.choice([0.0, 0.1, 0.3])
    natural_rate = rng.choice([0.0, 0.0, 0.08, 0.2])
    none_rate = rng.choice([0.15, 0.4, 0.7])
    abort_set_rate = rng.choice([0.0, 0.0, 0.05])
    small_only = rng.random() < 0.5
    if small_only:
        sub_pool = rng.sample(SMALL_KEYS, rng.randint(2, 6))

    ops = []
    live: list[str] = []
    models: dict[str, dict] = {}
    saved = 0

    variant_rate = rng.choice([0.0, 0.0, 0.15, 0.4])
    burst_rate = rng.choice([0.0, 0.0, 0.0, 0.05])
    env_rate = rng.choice([0.0, 0.0, 0.1, 0.25])
    depth_rate = rng.choice([0.0, 0.0, 0.2])
    how_rate = rng.choice([0.0, 0.0, 0.15])

    def pick_prog():
        if inline and rng.random() < 0.4:
            return {"src": rng.choice(inline)}
        key = rng.choice(sub_pool)
        if rng.random() < variant_rate:
            return {"src": progs.variant_of(POOL[key], rng)}
        return {"prog": key}

    def pick_obj():
        if not live or rng.random() < none_rate:
            return None
        return rng.choice(live)

    def abort_op():
        p = pick_prog()
        oid = pick_obj()
        model = {} if oid is None else models[oid]
        info = ctx.lp(prog_id(p), src_of(p), model)
        exc = rng.choice(ABORT_EXC)
        op = {"op": "abort_conv", "obj": oid, "exc": exc}
        op.update(p)
        if rng.random() < 0.5 or not info["calls"]:
            op["mode"] = "line"
            op["k"] = rng.randint(1, max(1, info["lines"]))
        else:
            funcs = sorted(info["calls"])
            f = rng.choice(funcs)
            op["mode"] = "call"
            op["func"] = f
            op["j"] = rng.randint(1, info["calls"][f])
        return op

    lifecycle_rate = rng.choice([0.0, 0.0, 0.08, 0.2])
    filename_rate = rng.choice([0.0, 0.0, 0.2])
    n_created = 0

    while len(ops) < n_ops:
        c = rng.random()
        last = len(ops) == n_ops - 1
        if not last and (live or rng.random() < 0.3) and rng.random() < lifecycle_rate:
            k = rng.random()
            if not live:
                k = 0.5
            if k < 0.45:
                oid = rng.choice(live)
                live.remove(oid)
                del models[oid]
                ops.append({"op": "del", "obj": oid, "gc": rng.random() < 0.5})
            elif k < 0.6:
                nm = rng.choice(OPTION_NAMES)
                ops.append({"op": "churn", "n": rng.choice([8, 64, 200]), "name": nm, "value": OPTION_SPACE[nm][1],
                            "gc": rng.random() < 0.5})
            elif k < 0.85 and len(live) < 4:
                n_created += 1
                nid = "c%d" % n_created
                src_o = rng.choice(live)
                live.append(nid)
                models[nid] = dict(models[src_o])
                cop = {"op": "copy", "id": nid, "src": src_o, "shallow": rng.random() < 0.5}
                if rng.random() < 0.25:
                    cop["pickle"] = rng.choice([2, 5])   # a copy made by a pickle round trip
                ops.append(cop)
            else:
                ops.append({"op": "delattr", "obj": rng.choice(live), "name": rng.choice(OPTION_NAMES)})
            continue
        if last and rng.random() < 0.85:
            c = 2.0  # make the last action a conversion most of the time: something is checked
        if c < 0.12 and len(live) < 4:
            n_created += 1
            oid = "o%d" % n_created
            live.append(oid)
            models[oid] = {}
            ops.append({"op": "new", "id": oid})
            continue
        if c < 0.12 + set_rate and live:
            oid = rng.choice(live)
            name = rng.choice(OPTION_NAMES)
            if rng.random() < illegal_rate:
                value = rng.choice(ILLEGAL_VALUES)
                ops.append({"op": "set", "obj": oid, "name": name, "value": value})
            elif rng.random() < abort_set_rate * 4:
                value = rng.choice(OPTION_SPACE[name])
                n = ctx.lp_set(name, value)
                ops.append({"op": "abort_set", "obj": oid, "name": name, "value": value,
                            "k": rng.randint(1, max(1, n)), "exc": rng.choice(ABORT_EXC)})
                # generator's view: unknown (old or new); keep old for event-count lookups
            else:
                value = rng.choice(OPTION_SPACE[name])
                models[oid][name] = value
                sop = {"op": "set", "obj": oid, "name": name, "value": value}
                if rng.random() < 0.3:
                    sop["fresh"] = True   # an equal string that is another object than any literal (run-time built)
                ops.append(sop)
            continue
        c2 = rng.random()
        if c2 < prng_rate:
            k = rng.random()
            if k < 0.4:
                ops.append({"op": "reseed", "n": rng.choice([0, 0, 1, 7, 12345, 2 ** 40])})
            elif k < 0.6:
                ops.append({"op": "draw", "k": rng.randint(1, 50)})
            elif k < 0.8:
                ops.append({"op": "savestate"})
                saved += 1
            elif saved:
                ops.append({"op": "setstate", "i": rng.randrange(saved)})
            else:
                ops.append({"op": "reseed", "n": 0})
            continue
        if c2 < prng_rate + abort_rate:
            ops.append(abort_op())
            continue
        if c2 < prng_rate + abort_rate + natural_rate:
            op = {"op": "conv", "prog": rng.choice(FAIL_KEYS), "obj": pick_obj()}
            ops.append(op)
            continue
        if c2 < prng_rate + abort_rate + natural_rate + 0.03:
            ops.append({"op": "gc"})
            continue
        if not last and rng.random() < burst_rate:
            ops.append({"op": "burst", "prog": rng.choice(["short:two_stmts", "short:if_chain", "short:for_break", "short:capt2"]),
                        "obj": pick_obj(), "n": rng.choice([40, 130, 300, 300, 1100])})
            continue
        if not last and rng.random() < env_rate:
            k = rng.random()
            if k < 0.12:
                ops.append({"op": "env", "what": "recursionlimit", "value": rng.choice([3000, 5000, 1000])})
            elif k < 0.16:
                ops.append({"op": "env", "what": "stdout", "value": rng.choice(["ascii", "latin-1", "cp1252", None])})
            elif k < 0.2:
                ops.append({"op": "env", "what": "clock", "value": rng.choice([61.0, 3601.0, 86401.0, 40 * 86400.0])})
            elif k < 0.25:
                ops.append({"op": "env", "what": "pid", "value": rng.choice([1, 77777, 4243])})
            elif k < 0.33:
                ops.append({"op": "env", "what": "gc", "value": rng.choice(["disable", "enable", [1, 1, 1], [100000, 50, 50]])})
            elif k < 0.37:
                ops.append({"op": "env", "what": "import", "value": rng.choice(["decimal", "readline", "pdb", "unittest", "multiprocessing", "asyncio"])})
            elif k < 0.4:
                ops.append({"op": "env", "what": "locale", "value": rng.choice(["C", "C.UTF-8", "POSIX"])})
            elif k < 0.55:
                ops.append({"op": "env", "what": "chdir", "value": rng.choice(["/", "/usr", "/tmp"])})
            elif k < 0.7:
                ops.append({"op": "env", "what": "argv", "value": rng.choice([["prog"], ["oneliner", "-Cunparser=oneliner", "x.py"], []])})
            else:
                ops.append({"op": "env", "what": "environ", "name": rng.choice(["ONELINER_UNPARSER", "PYTHONHASHSEED", "LANG", "ONELINER_DEBUG", "COLUMNS"]),
                            "value": rng.choice(["oneliner", "1", "C", "list", "0"])})
            continue
        op = {"op": "conv", "obj": pick_obj()}
        op.update(pick_prog())
        if rng.random() < filename_rate:
            op["filename"] = rng.choice(["x.py", "/abs/dir/mod.py", "<stdin>", ""])
        if rng.random() < depth_rate:
            op["depth"] = rng.choice([40, 150, 250]) if op.get("prog", "").startswith("short:") else rng.choice([150, 400, 600, 750, 850, 920])
        elif rng.random() < how_rate:
            op["how"] = rng.choice(["thread", "main_namespace"])
        ops.append(op)
    return {"prop": "C10", "seed": seed, "ops": ops, "extend": True}


# -- abstract state (reach measure) ------------------------------------------------------------


def abstract_trace(desc: dict, result: dict):
    """Abstract state after each action: (sorted option models of live objects, flags digest,
    PRNG state class).  Returns (states, transitions) as lists of short strings."""
    states, trans = [], []
    models: dict[str, dict] = {}
    prng = "untouched"
    prev = "init"
    for op, ev in zip(desc["ops"], result["events"]):
        k = op["op"]
        if ev.get("skip"):
            continue
        if k == "new":
            models[op["id"]] = {}
        elif k == "del":
            models.pop(op["obj"], None)
        elif k == "copy" and ev.get("out") == "ok":
            models[op["id"]] = {n: v for n, v in (ev.get("readback") or {}).items() if isinstance(v, str)}
        elif k == "delattr" and ev.get("out") == "ok":
            if isinstance(ev.get("readback"), str):
                models.get(op["obj"], {})[op["name"]] = ev["readback"]
        elif k == "set" and ev.get("out") == "ok":
            models[op["obj"]][op["name"]] = op["value"]
        elif k == "abort_set" and ev.get("pinned") == "new":
            models[op["obj"]][op["name"]] = op["value"]
        elif k == "reseed":
            prng = "seeded"
        elif k == "setstate":
            prng = "restored"
        elif k == "draw" and prng == "untouched":
            prng = "drawn"
        st = "%s/%s/%s" % (",".join(sorted(mkey(m) for m in models.values())), ev.get("flags", "?"), prng)
        if k in ("conv", "abort_conv"):
            act = "%s(%s,%s,%s)" % (k, ev.get("prog"), "none" if op.get("obj") is None else "obj",
                                     ev.get("out") if k == "conv" else ("fired" if ev.get("fired") else "miss"))
        elif k in ("set", "abort_set"):
            act = "%s(%s=%r,%s)" % (k, op["name"], op["value"], ev.get("out"))
        else:
            act = k
        states.append(st)
        trans.append(digest([prev, act, st])[:16])
        prev = st
    return states, trans


def probes_of(desc: dict, result: dict) -> dict:
    """Rare-condition counters for one run."""
    p: dict[str, int] = {}

    def hit(name):
        p[name] = p.get(name, 0) + 1

    ops, evs = desc["ops"], result["events"]
    seen_set_other = set()
    last_state_restore = None
    natural_fail = False
    preset_conv = 0
    failed_set_objs = set()
    aborted = False
    for op, ev in zip(ops, evs):
        if ev.get("skip"):
            continue
        k = op["op"]
        if k == "abort_conv":
            if ev.get("fired"):
                hit("abort_fired")
                aborted = True
                inf = ev.get("inflight") or {}
                if inf.get("loop_depth", 0) > 0:
                    hit("abort_with_nonempty_loop_stack")
                if inf.get("comp_depth", 0) > 0:
                    hit("abort_with_nonempty_comp_stack")
                if inf.get("unparse_depth", 0) > 0:
                    hit("abort_inside_custom_unparser")
                site = ev.get("site") or ""
                if ":unique_id:" in site or "stdlib/random.py" in site:
                    hit("abort_inside_unique_id_or_random")
                if "stdlib/ast.py" in site:
                    hit("abort_inside_ast_unparse")
            else:
                hit("abort_not_reached")
        elif k == "abort_set":
            if ev.get("fired"):
                hit("abort_inside_set")
        elif k == "set":
            if ev.get("out") == "ok":
                seen_set_other.add(op["obj"])
            else:
                hit("illegal_set_rejected")
                failed_set_objs.add(op["obj"])
        elif k == "setstate":
            last_state_restore = True
            hit("prng_state_reissued")
        elif k == "conv":
            if op.get("obj") is None and seen_set_other:
                hit("no_options_call_after_set_on_some_object")
            if op.get("obj") is not None and any(o != op["obj"] for o in seen_set_other):
                hit("conv_with_object_after_set_on_another_object")
            if last_state_restore:
                hit("conv_after_prng_state_reissued")
                last_state_restore = None
            if natural_fail and ev.get("out") == "ok":
                hit("conv_after_natural_failure")
            if op.get("depth") and ev.get("out") == "ok":
                hit("conv_ok_from_deep_stack")
            if aborted:
                hit("conv_after_injected_abort")
            if ev.get("out") == "exc":
                natural_fail = True
                if ev["exc"][0] == "RecursionError":
                    hit("natural_recursion_error")
                    if op.get("depth"):
                        hit("stack_exhausted_by_caller_depth")
            if op.get("obj") in failed_set_objs:
                hit("conv_with_object_after_failed_set")
            if op.get("prog") in ("short:for_break", "short:for_return", "short:sentinel", "file:t_break",
                                  "short:nested_loops", "short:many_returns"):
                preset_conv += 1
                if preset_conv >= 2:
                    hit("preset_reused_by_second_conversion")
    if result.get("mon_tripped"):
        hit("monitor_tripped")
    return p


# -- handlers ----------------------------------------------------------------------------------


def register(tpl):
    ctx = C10Ctx(tpl)
    tpl.c10 = ctx

    def h_check(req):
        desc = req["desc"]
        result = fork_run(child_history, desc)
        viols = judge(ctx, desc, result)
        out = {"violations": viols, "digest": digest(result)}
        if req.get("events"):
            out["result"] = result
        return out

    def run_descs(descs, req):
        agg = {
            "runs": 0, "ops": 0, "convs_checked": 0, "lines": 0, "failures": [], "digests": {},
            "probes": {}, "faults": {}, "sites": {}, "states": [], "transitions": [], "desc_digests": [],
            "samples": [],
        }
        states, trans, dd = set(), set(), set()
        for desc in descs:
            seed = desc.get("seed", 0)
            result = fork_run(child_history, desc)
            viols = judge(ctx, desc, result)
            agg["runs"] += 1
            agg["ops"] += len(desc["ops"])
            agg["lines"] += result.get("lines", 0)
            nconv = sum(1 for e in result["events"] if e["op"] == "conv" and not e.get("skip"))
            agg["convs_checked"] += nconv
            if req.get("want_digests"):
                agg["digests"][str(seed)] = digest([desc, result])
                agg.setdefault("logs", {})[str(seed)] = {"ops": desc["ops"], "events": result["events"], "lines": result.get("lines")}
            if viols:
                agg["failures"].append({"seed": seed, "desc": desc, "violations": viols})
            for k, v in probes_of(desc, result).items():
                agg["probes"][k] = agg["probes"].get(k, 0) + v
            for op, ev in zip(desc["ops"], result["events"]):
                if op["op"] in ("abort_conv", "abort_set") and ev.get("fired"):
                    fk = "%s:%s" % (op["op"], op.get("exc", "SimAbort"))
                    agg["faults"][fk] = agg["faults"].get(fk, 0) + 1
                    site = ":".join((ev.get("site") or "?").split(":")[:2])
                    agg["sites"][site] = agg["sites"].get(site, 0) + 1
                elif op["op"] == "conv" and ev.get("out") == "exc":
                    fk = "natural:" + ev["exc"][0]
                    agg["faults"][fk] = agg["faults"].get(fk, 0) + 1
                elif op["op"] in ("reseed", "draw", "setstate") and not ev.get("skip"):
                    fk = "prng:" + op["op"]
                    agg["faults"][fk] = agg["faults"].get(fk, 0) + 1
                elif op["op"] == "set" and ev.get("out") == "exc":
                    agg["faults"]["illegal_set"] = agg["faults"].get("illegal_set", 0) + 1
            s, t = abstract_trace(desc, result)
            states.update(s)
            trans.update(t)
            # non-trivial: at least one checked conversion preceded by at least one other action
            if nconv >= 1 and len(desc["ops"]) >= 2:
                dd.add(digest(desc["ops"])[:16])
            if req.get("n_samples", 0):
                # keep the most varied histories of the batch as samples (op kinds, fired aborts)
                kinds = {o["op"] for o in desc["ops"]}
                score = len(kinds) + (3 if any(e.get("fired") for e in result["events"]) else 0) + (1 if len(desc["ops"]) >= 4 else 0)
                cand = (score, {"seed": seed, "ops": _compact_ops(desc["ops"]), "events": _compact_events(result["events"])})
                best = agg.setdefault("_best", [])
                best.append(cand)
                best.sort(key=lambda t: -t[0])
                del best[req["n_samples"]:]
        agg["samples"] = [c[1] for c in agg.pop("_best", [])]
        agg["states"] = sorted(digest(s)[:12] for s in states)
        agg["transitions"] = sorted(trans)
        agg["desc_digests"] = sorted(dd)
        agg["ref_entries"] = len(ctx.ref_cache)
        return agg

    def h_batch(req):
        """Generate + run + judge a list of seeds.  Returns aggregates and failing runs."""
        knobs = req.get("knobs") or {}
        return run_descs([gen_history(seed, ctx, knobs) for seed in req["seeds"]], req)

    def h_histories(req):
        """Run + judge explicit op lists (systematic floor, crash-point enumeration)."""
        return run_descs([{"prop": "C10", "seed": 0, "ops": ops, "extend": True} for ops in req["ops_list"]], req)

    def h_gen(req):
        return gen_history(req["seed"], ctx, req.get("knobs") or {})

    def h_reftable(req):
        """Reference outcomes for pool x option models (O2 compares these across templates)."""
        table = {}
        keys = req.get("progs") or OK_KEYS + FAIL_KEYS
        for pid in keys:
            for mk in req["mkeys"]:
                r = ctx.ref(pid, POOL[pid], mk, model_from_key(mk))
                table[pid + "@" + mk] = r.get("sha") or cjson(r.get("exc"))
        return table

    def h_ref_src(req):
        """Reference outcome for an inline source (used by O2 on generated programs and by
        shrinking)."""
        out = {}
        for mk in req["mkeys"]:
            r = fork_run(child_ref, {"src": req["src"], "model": model_from_key(mk), "text": req.get("text", False)})
            out[mk] = r
        return out

    def h_lp(req):
        return ctx.lp(req["pid"], req["src"], req["model"])

    tpl.handlers.update({
        "c10_check": h_check, "c10_batch": h_batch, "c10_histories": h_histories, "c10_gen": h_gen, "c10_reftable": h_reftable,
        "c10_ref_src": h_ref_src, "c10_lp": h_lp,
    })


def _compact_ops(ops):
    out = []
    for op in ops:
        o = dict(op)
        if "src" in o:
            o["src"] = o["src"][:200] + ("..." if len(o["src"]) > 200 else "")
        out.append(o)
    return out


def _compact_events(events):
    out = []
    for ev in events:
        e = {k: ev[k] for k in ("op", "out", "exc", "fired", "site", "mkey", "prog", "pinned", "mon", "ext", "skip")
             if k in ev and ev[k] is not None}
        if "sha" in ev:
            e["sha"] = ev["sha"][:12]
        out.append(e)
    return out
