"""Self-tests of the machinery itself (not registered as property checks).

selftest-determinism : same seeds -> same event logs, across coordinator hash seeds, worker
                       counts and fresh interpreters.
selftest-sensitivity : every patch under /verif/mutants and /verif/seeded is applied to a scratch
                       copy of the repository; the baseline test-suite must still pass on it and the
                       quick check must alarm (``*alarm*`` / seeded) or stay silent (``*silent*``).
"""
from __future__ import annotations

import json
import os
import shutil
import subprocess
import sys
import tempfile

from .coord import PY312, Fleet, eprint, hashseeds_for
from .core import VERIF_DIR, HarnessError, derive_seed

CHECK = os.path.join(VERIF_DIR, "check")


def digests(prop: str, repo: str, n: int, jobs: int, seed: int) -> dict:
    """{seed: digest of (descriptor, event log)} for the first n seeds of a property."""
    hs = hashseeds_for(seed, 4)
    specs = [(PY312, h, 17 * i) for i, h in enumerate(hs)]
    out = {}
    with Fleet(repo, specs, replicas=2, jobs=jobs) as fleet:
        seeds = [derive_seed(seed, prop, i) for i in range(n)]
        B = 10
        jobsl = []
        for bi, i in enumerate(range(0, n, B)):
            g = bi % len(specs)
            if prop == "C10":
                jobsl.append((g, {"cmd": "c10_batch", "seeds": seeds[i:i + B], "knobs": {"max_len": 12}, "want_digests": True}))
            else:
                jobsl.append((g, {"cmd": "c16_batch", "seeds": seeds[i:i + B], "faults": True, "multi": 2, "want_digests": True,
                                  "digest_all": True}))
        for (g, req), r in zip(jobsl, fleet.run(jobsl)):
            for k, v in r["digests"].items():
                out["%d:%s" % (g, k)] = v
            if prop == "C16":
                out["agg:%d:%s" % (g, req["seeds"][0])] = json.dumps([r["runs"], r["fault_runs"], r["faults"], r["traces"]], sort_keys=True)
    return out


def _sub_digests(prop, repo, n, jobs, seed, hashseed):
    env = dict(os.environ, PYTHONHASHSEED=str(hashseed), VERIF_SEED=str(seed))
    code = ("import sys, json; sys.path.insert(0, %r); from sim import selftest; "
            "print(json.dumps(selftest.digests(%r, %r, %d, %d, %d), sort_keys=True))" % (VERIF_DIR, prop, repo, n, jobs, seed))
    p = subprocess.run([PY312, "-c", code], env=env, capture_output=True, text=True, timeout=3600)
    if p.returncode != 0:
        raise HarnessError("digest subprocess failed: %s" % p.stderr[-2000:])
    return json.loads(p.stdout.strip().splitlines()[-1])


def determinism(args) -> int:
    repo = args.repo
    n = 400 if args.tier == "thorough" else 120
    seed = int(os.environ.get("VERIF_SEED") or 0)
    rc = 0
    for prop in ("C10", "C16"):
        configs = [(16, "0"), (16, "random"), (1, "12345"), (5, "random")]
        results = []
        for jobs, hsd in configs:
            d = _sub_digests(prop, repo, n, jobs, seed, hsd)
            results.append(d)
            eprint("[determinism] %s jobs=%d coordinator PYTHONHASHSEED=%s: %d digests" % (prop, jobs, hsd, len(d)))
        base = results[0]
        for (jobs, hsd), d in zip(configs[1:], results[1:]):
            bad = [k for k in sorted(base) if d.get(k) != base[k]] + [k for k in sorted(d) if k not in base]
            if bad:
                print("DETERMINISM-MISMATCH %s: %d of %d event logs differ with jobs=%d hashseed=%s (first: %s)" % (
                    prop, len(bad), len(base), jobs, hsd, bad[:3]))
                rc = 2
        print("determinism %s: %d seeds x %d configurations compared, %s" % (prop, len(base), len(configs), "OK" if rc == 0 else "MISMATCH"))
    # probes of the committed evidence: a probe stuck at zero means the workload is blind there
    for prop in ("C10", "C16"):
        path = os.path.join(VERIF_DIR, "evidence", prop + ".json")
        if os.path.exists(path):
            with open(path) as f:
                ev = json.load(f)
            zero = [k for k, v in sorted(ev["coverage"].get("probes", {}).items()) if not v]
            print("probes %s (%s tier evidence): %d probes, zero: %s" % (prop, ev["tier"], len(ev["coverage"].get("probes", {})), zero or "none"))
    return rc


def _scratch_copy(repo: str) -> str:
    d = tempfile.mkdtemp(prefix="verif-scratch-")
    for name in ("oneliner", "oneliner_tests", "pyproject.toml", "README.md", "LICENSE", "requirements-dev.txt", "requirements-test.txt"):
        src = os.path.join(repo, name)
        if os.path.isdir(src):
            shutil.copytree(src, os.path.join(d, name), ignore=shutil.ignore_patterns("__pycache__"))
        elif os.path.exists(src):
            shutil.copy(src, d)
    return d


def _patch_list() -> list:
    out = []
    mdir = os.path.join(VERIF_DIR, "mutants")
    if os.path.isdir(mdir):
        for n in sorted(os.listdir(mdir)):
            if n.endswith(".patch"):
                prop = "C10" if n.startswith("c10") else "C16"
                out.append({"id": "mutants/" + n[:-6], "path": os.path.join(mdir, n), "prop": prop, "expect": "silent" if "-silent-" in n else "alarm"})
    sdir = os.path.join(VERIF_DIR, "seeded")
    if os.path.isdir(sdir):
        for n in sorted(os.listdir(sdir)):
            meta = os.path.join(sdir, n, "meta.json")
            if os.path.exists(meta):
                with open(meta) as f:
                    m = json.load(f)
                out.append({"id": "seeded/" + n, "path": os.path.join(sdir, n, "patch.diff"), "prop": m["property"],
                            "expect": ("alarm-probabilistic" if (m.get("probabilistic") or m.get("thorough_only")) else "alarm") if m.get("caught", True) else "not-claimed",
                            "demo": os.path.join(sdir, n, m.get("demo", "demo.py"))})
    return out


def _write_report(rows, only):
    """Rewritten after every patch, so a run that is cut short still leaves its results."""
    name = "sensitivity_report.json"
    if only:
        # a partial re-run (VERIF_ONLY=<substring>) is kept next to the full report, never over it
        name = "sensitivity_report.partial-%s.json" % "".join(c if c.isalnum() or c in "-_" else "_" for c in only)
    try:
        head = subprocess.run(["git", "-C", VERIF_DIR, "rev-parse", "--short", "HEAD"], capture_output=True, text=True).stdout.strip()
    except OSError:
        head = "?"
    summary = {}
    for r in rows:
        summary[r["result"]] = summary.get(r["result"], 0) + 1
    report = {"verif_commit": head, "patches_run": len(rows), "summary": summary,
              "rows": [{k: r.get(k) for k in ("id", "prop", "expect", "result", "tests", "detail")} for r in rows]}
    if only:
        report["only"] = only
    with open(os.path.join(VERIF_DIR, name), "w") as f:
        json.dump(report, f, indent=1, sort_keys=True)
        f.write("\n")


def _one_patch(args, pt, jobs):
    """Apply one patch to its own scratch copy, run the test-suite and the quick check.  Returns (row, rc)."""
    scratch = _scratch_copy(args.repo)
    try:
        ap = subprocess.run(["patch", "-p1", "-s", "-i", pt["path"]], cwd=scratch, capture_output=True, text=True)
        if ap.returncode != 0:
            return dict(pt, result="PATCH-DOES-NOT-APPLY", detail=ap.stdout[-300:] + ap.stderr[-300:]), 2
        tests = "skipped"
        if not os.environ.get("VERIF_SKIP_TESTS"):
            tp = subprocess.run([PY312, "-m", "pytest", "-q", "-p", "no:cacheprovider", "--timeout=900", "-x"], cwd=scratch,
                                capture_output=True, text=True, timeout=1800)
            tests = tp.stdout.strip().splitlines()[-1] if tp.stdout.strip() else "no output"
            if tp.returncode != 0:
                return dict(pt, result="TESTS-FAIL", detail=tests), 2
        rdir = os.path.join(scratch, "_replays")
        cp = subprocess.run([CHECK, pt["prop"], "--tier", "quick", "--repo", scratch, "--no-evidence", "--replay-dir", rdir,
                             "--jobs", str(jobs)], capture_output=True, text=True, timeout=5400)
        sigs = [l.strip() for l in cp.stderr.splitlines() if l.strip().startswith("signature:")]
        alarm = cp.returncode == 1 and "VIOLATION property=%s" % pt["prop"] in cp.stdout
        rc = 0
        if cp.returncode == 2:
            res = "HARNESS-ERROR"
            rc = 2
        elif pt["expect"] == "not-claimed":
            res = "caught (not claimed)" if alarm else "not caught (by decision, see meta.json)"
        elif pt["expect"] == "alarm-probabilistic":
            res = "caught" if alarm else "not caught in the quick tier (probabilistic there, or thorough tier only - see meta.json)"
        elif pt["expect"] == "alarm":
            res = "caught" if alarm else "MISSED"
            if not alarm:
                rc = 2
        else:
            res = "silent" if cp.returncode == 0 else "FALSE-ALARM"
            if cp.returncode != 0:
                rc = 2
        detail = "; ".join(s.replace("signature: ", "") for s in sigs[:3]) or cp.stdout.strip()[-300:]
        return dict(pt, result=res, tests=tests, detail=detail), rc
    finally:
        shutil.rmtree(scratch, ignore_errors=True)


def sensitivity(args) -> int:
    """VERIF_SENS_PAR patches are processed at a time (default 2: the serial stretches of one quick check
    - shrinking, replay in fresh interpreters - overlap with the parallel stretches of the other)."""
    from concurrent.futures import ThreadPoolExecutor

    only = os.environ.get("VERIF_ONLY")
    par = max(1, int(os.environ.get("VERIF_SENS_PAR") or 2))
    jobs = args.jobs or (os.cpu_count() or 4)
    todo = [pt for pt in _patch_list() if not only or only in pt["id"]]
    rows = []
    rc = 0
    with ThreadPoolExecutor(max_workers=par) as ex:
        for pt, (row, r) in zip(todo, ex.map(lambda pt: _one_patch(args, pt, jobs), todo)):
            rows.append(row)
            rc = max(rc, r)
            _write_report(rows, only)
            eprint("[sensitivity] %-55s %-6s %-13s %s" % (pt["id"], pt["expect"], row["result"], (row.get("detail") or "")[:140]))
    _write_report(rows, only)
    for r in rows:
        print("%-58s %-4s expect=%-6s %s" % (r["id"], r["prop"], r["expect"], r["result"]))
    return rc


def main(what: str, args) -> int:
    if what == "selftest-determinism":
        return determinism(args)
    if what == "selftest-sensitivity":
        return sensitivity(args)
    print("unknown selftest %r" % what)
    return 2
