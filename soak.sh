#!/bin/bash
# Soak helper (not a registered check): multi-seed quick runs and thorough tiers on the unchanged tree.
# usage: ./soak.sh seeds | thorough
cd "$(dirname "$0")"
case "$1" in
 seeds)
  for s in 1 2 3 4 5 6 7 8; do
    for p in C10 C16; do
      echo "=== VERIF_SEED=$s $p"; VERIF_SEED=$s ./check $p --no-evidence --replay-dir /tmp/verif-soak-replays 2>&1 | grep -E "VIOLATION|HARNESS|DETERMINISM|NOTE|done rc" 
    done
  done;;
 thorough)
  for p in C10 C16; do
    echo "=== thorough $p"; ./check $p --tier thorough --no-evidence --replay-dir /tmp/verif-soak-replays 2>&1 | grep -v KNOWN | tail -25
  done;;
esac
