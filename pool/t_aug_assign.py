# type: ignore

# test all types of aug-assign
a = 1
a += 6
print(a)
a -= 2
print(a)
a *= 8
print(a)
a //= 2
print(a)
a /= 2
print(a)
a **= 0.5
print(a)

a = 1
a |= 0xFE
print(a)
a &= 0x08
print(a)
a ^= 0xCC
print(a)
a <<= 2
print(a)
a >>= 4
print(a)


# test aug-assign on subscript/attribute
foo = Foo()
foo.bbb += 1
foo[1:10] += 1

l = [1, 2, 3]
l[:] += [4, 5]
print(l)
