"""Shared plumbing: seeds, canonical JSON, digests, ddmin, evidence, known findings.

Nothing in here touches the system under test.  Everything iterates lists or sorted
containers only, so results never depend on PYTHONHASHSEED of the coordinator.
"""
from __future__ import annotations

import hashlib
import json
import os
import sys
import random
import re
import time

VERIF_DIR = os.path.dirname(os.path.dirname(os.path.abspath(__file__)))
MASK = (1 << 64) - 1

OPTION_SPACE = {
    "unparser": ["ast.unparse", "oneliner"],
    "expr_wrapper": ["chain_call", "list"],
    "if_style": ["if_expr", "short_circuit"],
}
OPTION_NAMES = ["unparser", "expr_wrapper", "if_style"]
DEFAULTS = {"unparser": "ast.unparse", "expr_wrapper": "chain_call", "if_style": "if_expr"}


def all_option_sets():
    out = []
    for u in OPTION_SPACE["unparser"]:
        for w in OPTION_SPACE["expr_wrapper"]:
            for s in OPTION_SPACE["if_style"]:
                out.append({"unparser": u, "expr_wrapper": w, "if_style": s})
    return out


def opts_key(opts: dict) -> str:
    """Canonical short key of a complete option assignment."""
    return "|".join(str(opts[n]) for n in OPTION_NAMES)


def as_value(v, fresh: bool = False):
    """The identity of an option value is part of a run's description, never an accident of how the
    harness built the string: `interned` is what a literal in the caller's source is, `fresh` what a
    value computed at run time (str.split, json, argparse) is - equal, but another object."""
    if not isinstance(v, str):
        return v
    if not fresh:
        return sys.intern(v)
    w = "".join([v[:1], v[1:]]) if len(v) > 1 else v
    return w


def splitmix64(x: int) -> int:
    x = (x + 0x9E3779B97F4A7C15) & MASK
    z = x
    z = ((z ^ (z >> 30)) * 0xBF58476D1CE4E5B9) & MASK
    z = ((z ^ (z >> 27)) * 0x94D049BB133111EB) & MASK
    return z ^ (z >> 31)


def derive_seed(master: int, *labels) -> int:
    """s = splitmix64 chain over (master, labels...).  Labels are ints or short strings."""
    x = splitmix64(master & MASK)
    for lab in labels:
        if isinstance(lab, str):
            v = int.from_bytes(hashlib.sha256(lab.encode()).digest()[:8], "big")
        else:
            v = int(lab) & MASK
        x = splitmix64(x ^ v)
    return x


def rng_for(master: int, *labels) -> random.Random:
    return random.Random(derive_seed(master, *labels))


def cjson(obj) -> str:
    return json.dumps(obj, sort_keys=True, separators=(",", ":"), ensure_ascii=True)


def digest(obj) -> str:
    return hashlib.sha256(cjson(obj).encode()).hexdigest()


def sha_text(text: str) -> str:
    return hashlib.sha256(text.encode("utf-8", "surrogatepass")).hexdigest()


_OL_RE = re.compile(r"__ol_\w+")


def normalise(text: str) -> str:
    """First-occurrence renaming of every ``__ol_*`` identifier token.

    Two texts have equal normal forms iff one is obtained from the other by a bijective
    renaming of the ``__ol_`` tokens (in particular: two temporaries that are distinct in one
    text and merged in the other give different normal forms).
    """
    table: dict[str, str] = {}

    def sub(m):
        tok = m.group(0)
        r = table.get(tok)
        if r is None:
            r = table[tok] = "__ol#%d" % len(table)
        return r

    return _OL_RE.sub(sub, text)


def ddmin(items: list, test, max_tests: int = 4000) -> list:
    """Classic delta debugging over a list.  ``test(candidate) -> bool`` (True = still fails).

    Deterministic; bounded by ``max_tests`` evaluations.
    """
    n = 2
    tests = 0
    items = list(items)
    while len(items) >= 2:
        chunk = max(1, len(items) // n)
        subsets = [items[i : i + chunk] for i in range(0, len(items), chunk)]
        reduced = False
        for i in range(len(subsets)):
            complement = [x for j, s in enumerate(subsets) if j != i for x in s]
            tests += 1
            if tests > max_tests:
                return items
            if complement and test(complement):
                items = complement
                n = max(n - 1, 2)
                reduced = True
                break
        if not reduced:
            if n >= len(items):
                break
            n = min(len(items), n * 2)
    if len(items) == 1:
        tests += 1
        if test([]):
            return []
    return items


class Timer:
    def __init__(self):
        self.t0 = time.monotonic()

    def s(self) -> float:
        return round(time.monotonic() - self.t0, 3)


def load_known_findings() -> list:
    path = os.path.join(VERIF_DIR, "known_findings.json")
    if not os.path.exists(path):
        return []
    with open(path, encoding="utf-8") as f:
        return json.load(f)["findings"]


def match_known(prop: str, signature: str):
    """Return the 'known' entry suppressing this signature, else None.  'fixed' entries
    suppress nothing."""
    for ent in load_known_findings():
        if ent.get("status") != "known" or ent.get("property") != prop:
            continue
        if ent.get("signature") == signature:
            return ent
    return None


def write_evidence(prop: str, tier: str, seed: int, level: str, coverage: dict,
                   wall_s: float, violations: int, assumptions: list):
    os.makedirs(os.path.join(VERIF_DIR, "evidence"), exist_ok=True)
    path = os.path.join(VERIF_DIR, "evidence", prop + ".json")
    doc = {
        "property_id": prop,
        "tier": tier,
        "seed": int(seed),
        "level": level,
        "coverage": coverage,
        "assumptions": assumptions,
        "wall_s": float(wall_s),
        "violations": int(violations),
    }
    tmp = path + ".tmp"
    with open(tmp, "w", encoding="utf-8") as f:
        json.dump(doc, f, indent=1, sort_keys=True)
        f.write("\n")
    os.replace(tmp, path)
    return path


def write_replay(prop: str, seed, doc: dict, replay_dir: str | None = None) -> str:
    d = replay_dir or os.path.join(VERIF_DIR, "replays")
    os.makedirs(d, exist_ok=True)
    path = os.path.join(d, "%s-%s.json" % (prop, seed))
    with open(path, "w", encoding="utf-8") as f:
        json.dump(doc, f, indent=1, sort_keys=True)
        f.write("\n")
    return path


class HarnessError(Exception):
    """Something is wrong with the machinery (timeout, dead worker, model/real disagreement,
    replay that does not reproduce).  Exit status 2; never a VIOLATION line."""
