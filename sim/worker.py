"""Template process + fork server.

A *template* is a fresh interpreter (host python and PYTHONHASHSEED chosen by the
coordinator) that imports the package under test and the harness and then makes NO call into
the package: its library state is that of a fresh process.  Every simulated run executes in an
``os.fork()`` child of the template and reports through a pipe, so runs cannot contaminate each
other and a run is a pure function of (template identity, run descriptor, code).

Protocol with the coordinator: one JSON document per line on the (dup'ed) stdin/stdout.
"""
from __future__ import annotations

import faulthandler
import gc
import json
import os
import signal
import sys
import traceback

_FORKS = 0
CHILD_TIMEOUT = 30  # wall seconds per forked run; exceeding it is a harness error, never a pass


class ChildFailure(Exception):
    pass


def fork_run(fn, arg, timeout: int = CHILD_TIMEOUT):
    """Run ``fn(arg)`` in a forked child; return its JSON-serialisable result.

    Raises ChildFailure when the child times out, dies from a signal, or harness code raised.
    """
    r, w = os.pipe()
    sys.stderr.flush()
    # The cyclic collector runs when allocation counters cross thresholds, and a collection can
    # finalise suspended generators left behind by an aborted conversion (visible to the tracer as
    # extra events).  Freezing right before the fork empties the generations and zeroes the
    # counters, so collector timing in the child is a pure function of the child's own allocations,
    # whatever the age of the template.
    global _FORKS
    _FORKS += 1
    if _FORKS % 400 == 0:
        gc.unfreeze()
        gc.collect()
    gc.freeze()
    pid = os.fork()
    if pid == 0:
        code = 97
        try:
            os.close(r)
            # A full collection right after the fork (cheap: everything inherited is frozen) resets the
            # collector's long_lived_total / long_lived_pending, which gc.freeze() leaves as they were
            # in the parent: whether the child's first FULL collection happens - and with it the
            # finalisation of generators an aborted conversion left suspended, which the tracer sees
            # as call events - depended on the age of the template through those two counters.
            gc.collect()
            signal.alarm(timeout)
            faulthandler.dump_traceback_later(max(1, timeout - 1), exit=False, file=sys.__stderr__)
            res = fn(arg)
            data = json.dumps(res, sort_keys=True, separators=(",", ":")).encode()
            view = memoryview(data)
            while view:
                n = os.write(w, view)
                view = view[n:]
            code = 0
        except BaseException:  # harness failure inside the child
            try:
                msg = traceback.format_exc()
                os.write(w, b"\x00HARNESS\x00" + msg.encode("utf-8", "replace")[-60000:])
                sys.__stderr__.write(msg)
                sys.__stderr__.flush()
            except BaseException:
                pass
        finally:
            os._exit(code)
    os.close(w)
    chunks = []
    while True:
        b = os.read(r, 1 << 16)
        if not b:
            break
        chunks.append(b)
    os.close(r)
    _, status = os.waitpid(pid, 0)
    data = b"".join(chunks)
    if status != 0:
        if os.WIFSIGNALED(status):
            sig = os.WTERMSIG(status)
            why = "child killed by signal %d%s" % (sig, " (timeout)" if sig == signal.SIGALRM else "")
        else:
            why = "child exit %d" % os.WEXITSTATUS(status)
        tail = ""
        if data.startswith(b"\x00HARNESS\x00"):
            tail = data[9:].decode("utf-8", "replace")
        raise ChildFailure(why + ("\n" + tail if tail else ""))
    return json.loads(data)


def warm_stdlib(pkg_main_file: str):
    """Fill the caches of the STANDARD LIBRARY (argparse/gettext, re, codecs, linecache, importlib,
    ast) in the template so that children do not pay for them on every run.  Nothing here calls
    into the package under test, so its state stays that of a fresh process."""
    import argparse
    import ast
    import codecs
    import contextlib
    import importlib.util
    import io
    import linecache
    import symtable
    import traceback
    import warnings

    p = argparse.ArgumentParser(description="x")
    p.add_argument("-C", action="append", type=str, help="h")
    p.add_argument("input_filename", type=str, help="h")
    p.add_argument("-v", "--version", action="version", version="v")
    p.add_argument("-o", "--output", type=str, help="h")
    p.add_argument("--unparser", type=str, choices=["a", "b"])
    p.parse_args(["-Ca=b", "f", "-o", "x", "--unparser", "a"])
    for bad in (["--bogus"], ["-C"], ["f", "--unparser", "zz"], []):
        try:
            with contextlib.redirect_stderr(io.StringIO()):
                p.parse_args(bad)
        except SystemExit:
            pass
    p.format_help()
    for enc in ("utf-8", "utf8", "ascii", "latin-1", "cp1252", "utf-8-sig", "unicode_escape", "raw_unicode_escape"):
        codecs.lookup(enc)
        "x\u00e9".encode(enc, "replace")
    try:
        importlib.util.find_spec("oneliner.__main__")
    except Exception:
        pass
    linecache.getlines(pkg_main_file)
    src = "import os\ndef f(a, b=1, *c, d, **e):\n    return [x for x in (a, b)]\nclass K(object):\n    pass\nprint(f'{f(1, d=2)!r:>4}', 1 if f else 2)\n"
    tree = ast.parse(src)
    ast.unparse(tree)
    ast.dump(tree)
    symtable.symtable(src, "<warm>", "exec")
    compile(src, "<warm>", "exec")
    try:
        raise ValueError("x")
    except ValueError:
        traceback.format_exc()
    with warnings.catch_warnings(record=True):
        warnings.simplefilter("always")
        warnings.warn("warm", DeprecationWarning)
    io.TextIOWrapper(io.BufferedWriter(io.BytesIO()), "latin-1").write("x")


class Template:
    """State held by the template parent: static data and caches of *results* only."""

    def __init__(self, repo: str, wid: int):
        self.repo = repo
        self.wid = wid
        self.hashseed = os.environ.get("PYTHONHASHSEED", "random")
        self.pad = int(os.environ.get("VERIF_HEAP_PAD", "0") or 0)
        self.host = "%d.%d.%d" % sys.version_info[:3]
        self.handlers = {}

    def ident(self):
        return {"host": self.host, "hashseed": self.hashseed, "exe": sys.executable, "pad": self.pad,
                "opt": int(os.environ.get("VERIF_PYFLAGS_INDEX", "0") or 0),
                "aslr_disabled": _aslr_disabled()}


_HEAP_PAD = []


def _aslr_disabled() -> bool:
    try:
        with open("/proc/self/personality") as f:
            return bool(int(f.read().strip(), 16) & 0x0040000)
    except (OSError, ValueError):
        return False


def main(argv=None):
    argv = list(sys.argv[1:] if argv is None else argv)
    # heap-offset knob: shifts the addresses of everything allocated later (deterministically,
    # ASLR being off), so that id()-ordered containers are perturbed between templates
    n_pad = int(os.environ.get("VERIF_HEAP_PAD", "0") or 0)
    for i in range(n_pad):
        _HEAP_PAD.append(bytearray(i % 509))
        _HEAP_PAD.append([None] * (i % 37))
        _HEAP_PAD.append({i: i} if i % 3 == 0 else (i, i))
    repo = argv[argv.index("--repo") + 1]
    wid = int(argv[argv.index("--id") + 1])
    repo = os.path.realpath(repo)
    sys.dont_write_bytecode = True
    # protocol channel on private fds; anything a child prints goes to stderr (a log file)
    proto_out = os.fdopen(os.dup(1), "w", encoding="utf-8", buffering=1)
    proto_in = os.fdopen(os.dup(0), "r", encoding="utf-8")
    os.dup2(2, 1)
    devnull = os.open(os.devnull, os.O_RDONLY)
    os.dup2(devnull, 0)
    os.close(devnull)
    sys.stdout = sys.stderr

    sys.path.insert(0, repo)
    import oneliner  # the package under test: imported, never called in the template

    pkg_file = os.path.realpath(oneliner.__file__)
    if not pkg_file.startswith(repo + os.sep):
        proto_out.write(json.dumps({"fatal": "oneliner imported from %s, not from %s" % (pkg_file, repo)}) + "\n")
        return 3

    warm_stdlib(os.path.join(os.path.dirname(pkg_file), "__main__.py"))
    # The interpreter seeds the global `random` from the OS at start-up: two templates with the same
    # identity (replicas, and the fresh interpreter of a replay) would hand different fresh names to
    # the reference calls.  The state is made a function of the template identity.
    import random as _random

    _random.seed("verif-template/%s/%s/%s" % (os.environ.get("PYTHONHASHSEED"), os.environ.get("VERIF_HEAP_PAD"), sys.flags.optimize))
    tpl = Template(repo, wid)
    from sim import c10, c16

    c10.register(tpl)
    c16.register(tpl)

    proto_out.write(json.dumps({"ready": tpl.ident()}) + "\n")
    for line in proto_in:
        line = line.strip()
        if not line:
            continue
        req = json.loads(line)
        cmd = req.get("cmd")
        if cmd == "quit":
            break
        try:
            h = tpl.handlers[cmd]
            resp = {"ok": h(req)}
        except ChildFailure as e:
            resp = {"harness_error": "ChildFailure: %s" % e}
        except Exception:
            resp = {"harness_error": traceback.format_exc()}
        proto_out.write(json.dumps(resp, sort_keys=True, separators=(",", ":")) + "\n")
    return 0


if __name__ == "__main__":
    sys.exit(main())
