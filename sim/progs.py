"""Program pool (vendored + short hand-written) and a small seeded program grammar.

For C10 only *conversion* is exercised, never evaluation, so any module that parses and
passes ``symtable`` is admissible.  C16 uses its own deterministic, self-contained pool
(sim/c16.py) because there the translation is also evaluated.
"""
from __future__ import annotations

import ast
import os
import random
import symtable
import warnings

from .core import VERIF_DIR

SHORT = {
    # --- shared-flag programs -------------------------------------------------------
    "empty": "",
    "one_expr": "print(1)\n",
    "two_stmts": "a = 1\nprint(a)\n",
    "while_plain": "i = 0\nwhile i < 3:\n    i += 1\nprint(i)\n",
    "while_break": "i = 0\nwhile True:\n    i += 1\n    if i > 3:\n        break\nelse:\n    print('no')\nprint(i)\n",
    "import_plain": "import os\nimport os.path as p, sys\nprint(p.sep)\n",
    "from_import": "from os import path, sep as s\nfrom os.path import join\nprint(s)\n",
    "for_plain": "for x in range(3):\n    print(x)\n",
    "for_break": "for x in range(9):\n    if x == 2:\n        break\n    print(x)\nelse:\n    print('e')\n",
    "for_continue_else": "for x in range(4):\n    if x % 2:\n        continue\n    print(x)\nelse:\n    print('done')\n",
    "for_return": "def f(xs):\n    for x in xs:\n        if x:\n            return x\n    return None\nprint(f([0, 3]))\n",
    "nested_loops": (
        "for i in range(3):\n    j = 0\n    while j < 3:\n        j += 1\n        if j == i:\n            continue\n"
        "        if j > 2:\n            break\n    else:\n        print('w-else')\n    if i == 1:\n        break\nelse:\n    print('f-else')\n"
    ),
    "if_chain": "a = 2\nif a == 1:\n    print(1)\nelif a == 2:\n    print(2)\n    print(22)\nelse:\n    print(3)\nif a:\n    print('t')\n",
    # --- closures / hash-order site ------------------------------------------------
    "capt2": "def f(a, b):\n    def g():\n        return a + b\n    return g\nprint(f(1, 2)())\n",
    "capt5": (
        "def f(alpha, beta, gamma, delta, epsilon):\n    def g():\n        return alpha + beta + gamma + delta + epsilon\n"
        "    return g\nprint(f(1, 2, 3, 4, 5)())\n"
    ),
    "capt8": (
        "def f(p0, p1, p2, p3, *p4, p5=0, p6=1, **p7):\n    loc = 1\n    def g():\n        nonlocal loc\n        loc += 1\n"
        "        return (p0, p1, p2, p3, p4, p5, p6, p7, loc)\n    return g\nprint(f(1, 2, 3, 4)())\n"
    ),
    "capt_class": (
        "def mk(first, second, third):\n    class K:\n        v = first\n        def m(self):\n            return second + third\n"
        "    return K\nprint(mk(1, 2, 3)().m())\n"
    ),
    "nonlocal_chain": (
        "def a(x, y, z):\n    def b(u, v):\n        def c():\n            nonlocal x, u\n            x = x + u + v + y + z\n            return x\n"
        "        return c\n    return b\nprint(a(1, 2, 3)(4, 5)())\n"
    ),
    "super_capture": (
        "class Base:\n    def greet(self):\n        return 'hello'\n"
        "def make(prefix, suffix, sep):\n    tag = prefix + suffix\n    class Child(Base):\n        def greet(self):\n"
        "            return prefix + sep + super().greet() + sep + suffix + tag\n        def cls_name(self):\n"
        "            return (__class__.__name__, sep, tag)\n    return Child\nprint(make('a', 'b', '-')().greet())\n"
    ),
    "many_frees": (
        "def outer(a1, a2, a3, a4):\n    b1 = a1\n    b2 = a2\n    def mid(c1, c2):\n        nonlocal b1\n        b1 = c1\n"
        "        def inner():\n            nonlocal b2, c2\n            b2 = c2 = a3\n            return (a1, a2, a4, b1, b2, c1, c2)\n"
        "        return inner\n    return mid\nprint(outer(1, 2, 3, 4)(5, 6)())\n"
    ),
    "class_in_class_in_func": (
        "def f(x, y, z):\n    class A:\n        ax = x\n        class B:\n            by = y\n            def m(self, w=z):\n"
        "                return (x, y, w, __class__)\n        def n(self):\n            return [x + q for q in (y, z)]\n    return A\n"
        "print(f(1, 2, 3).B().m()[:3])\n"
    ),
    "multi_destructure": "a, b = 1, 2\nc, d = b, a\n(e, f), g = (c, d), a\nh, (i, (j, k)) = a, (b, (c, d))\n[l, *m] = [a, b, c]\nprint(a, b, c, d, e, f, g, h, i, j, k, l, m)\n",
    "multi_from_import": "from os import sep\nfrom os import path\nfrom os.path import join\nfrom sys import maxsize as ms\nprint(sep, ms > 0)\n",
    "multi_aug_attr": "class O:\n    a = 1\n    b = [1]\no = O()\no.a += 1\no.a -= 2\no.b += [2]\no.b[0] += 5\no.b[1] *= 2\nprint(o.a, o.b)\n",
    "sibling_classes": "class A:\n    x = 1\nclass B:\n    x = 2\nclass C(A, B):\n    y = 3\nclass D(C):\n    pass\nprint(D.x, D.y)\n",
    "sibling_loops": "for i in range(2):\n    if i:\n        break\nfor j in range(2):\n    if j:\n        break\nk = 0\nwhile k < 2:\n    k += 1\n    if k:\n        break\nwhile k < 4:\n    k += 1\n    if k == 3:\n        continue\nprint(i, j, k)\n",
    "comp_tuple_targets": "pairs = [(1, 2), (3, 4)]\nd = {k: v for k, v in pairs}\ns = [(a, b) for a, b in pairs if a]\ng = sum(x * y for (x, y) in pairs)\nprint(d, s, g)\n",
    "comp_reads_captured": (
        "def f(k, v, a):\n    b = a\n    def g():\n        return [(p, q, k, v, a, b) for p, q in [(1, 2)]]\n    return g\n"
        "class C:\n    k = 1\n    x = 2\n    w = [(m, n) for m, n in [(k, x)]]\n    def meth(self, y):\n        return {i: (j, y, self.k) for i, j in [(1, 2)]}\n"
        "print(f(1, 2, 3)(), C.w, C().meth(5))\n"
    ),
    "shared_names_roles": (
        "k = 1\nv = 2\ndef x(a, b, y):\n    def inner(p):\n        nonlocal a\n        a = [k for k in (b, y)]\n        return (a, p, v)\n    return inner\n"
        "class a:\n    b = k\n    def p(self, q=v):\n        return [(a, b) for a, b in [(q, k)]]\nprint(x(1, 2, 3)(4), a().p())\n"
    ),
    "fstring_nested_quotes": (
        "w = 'x'\nq1 = f\'\'\'{len('a\"b')} {\"it's\"!r} {w + '\"'}\'\'\'\nq2 = f\"{'say \\'hi\\''} {w!a}\"\nprint(q1, q2)\n"
    ),
    "plain_quotes": "s1 = 'say \"hi\"'\ns2 = \"it's\"\ns3 = 'both \\' and \"'\nd = {'k\"': \"v'\"}\nprint(s1, s2, s3, d)\n",
    "rare_exprs": (
        "w = 3\nd = {'a': 1}\ns = {1, 2, w}\nt = f\"{ {'k': w}['k']:>{w}} {d['a']:{'0'}{w}d} {s!r:{'<'}{10}}\"\n"
        "f = lambda *, k=1, j: (k, j)\ng = lambda a, b=2, *, c=3: (a, b, c)\nh = lambda a=1, /, b=2: a + b\n"
        "m = [[1, 2], [3, 4]]\nm[0][::2] *= 1\nz = (yield_ := 3)\nprint(t, f(j=2), g(1), h(), m, z, s - {1})\n"
    ),
    "rare_scopes": (
        "g1 = 1\ndef outer(p, q):\n    class K:\n        global g1\n        g1 = p\n        r = [q for _ in range(2)]\n"
        "        def m(self, d=q):\n            nonlocal p\n            p += d\n            return (lambda x=d: x + p)()\n"
        "    for a, *b in [(1, 2, 3)]:\n        p += a\n    return K\nprint(outer(1, 2)().m(), g1)\n"
    ),
    "rare_class": (
        "def deco(arg):\n    def wrap(fn):\n        fn.tag = arg\n        return fn\n    return wrap\nclass Base:\n"
        "    def __init_subclass__(cls, /, flag=0, **kw):\n        super().__init_subclass__(**kw)\n        cls.flag = flag\n"
        "class Child(Base, flag=7):\n    v = 2\n    @deco('t')\n    def m(self, k=v):\n        return (k, self.flag)\n"
        "    @staticmethod\n    def s():\n        return 's'\n    @classmethod\n    def c(cls):\n        return cls.v\n"
        "print = print\nprint(Child().m(), Child.s(), Child.c(), Child.m.tag)\n"
    ),
    "lambda_in_class": "class L:\n    v = 2\n    w = (lambda y=v: y * 2)()\nprint(L.w)\n",
    "relative_imports": "from . import sibling\nfrom .. import parent as P\nfrom .pkg.mod import name1, name2 as n2\nimport a.b.c\nprint(sibling, P, name1, n2)\n",
    "numeric_floats": "a = 0.0\nb = 1.0\nc = -0.0\nd = 2.0\ne = 1e0\nf = 255.0\nprint(a, b, c, d, e, f)\n",
    "numeric_complex": "a = 0j\nb = 1j\nc = 1 + 0j\nd = 2j\ne = -0j\nprint(a, b, c, d, e)\n",
    "numeric_ints_bools": "a = 0\nb = 1\nc = True\nd = False\ne = 2\nf = 255\ng = 0x0\nh = -1\nprint(a, b, c, d, e, f, g, h)\n",
    "equal_constants_mixed": "xs = [0, 0.0, 0j, False, 1, 1.0, True, (1+0j), -1, -1.0, '', b'', None, ..., '0', b'0']\nprint(xs)\n",
    "private_like_names": (
        "__registry = {}\n_single = 1\ntrailing_ = 2\n__dunder__ = 3\nclass Obj:\n    pass\nobj = Obj()\nobj.__token = 5\nobj._x = 6\n"
        "def use(__arg, _b=1):\n    __local = __arg + _b\n    return [__registry, __local, obj.__token]\nprint(use(1), _single, trailing_, __dunder__)\n"
    ),
    "private_in_class": (
        "class Shape:\n    __count = 0\n    def __init__(self):\n        self.__id = Shape.__count\n        Shape.__count += 1\n"
        "    def ident(self):\n        return self.__id\nprint(Shape().ident(), Shape().ident())\n"
    ),
    "shadow_builtins_loop": "next = (1, 2)\niter = 'it'\nfor x in range(5):\n    if x == 2:\n        break\nprint(x, next, iter)\n",
    "shadow_builtins_misc": (
        "setattr = None\nhasattr = None\ntuple = list\nslice = 3\ntype = 'T'\nglobals = 1\nlocals = 2\na, b = 1, 2\nc = [0, 1, 2]\n"
        "print(a, b, c, tuple, slice, type)\n"
    ),
    "shadow_helper_modules": "itertools = 'mine'\nimportlib = 'mine too'\ni = 0\nwhile i < 2:\n    i += 1\nprint(itertools, importlib, i)\n",
    "comp_target_then_load": (
        "def f(k, v):\n    def g():\n        return k + v\n    xs = [k for k in range(3)]\n    ys = {v: k for v in xs}\n    return (k, v, xs, ys, g())\n"
        "class C:\n    k = 5\n    sq = [k for k in range(2)]\n    after = k\n    def m(self, n=k):\n        return n\nprint(f(10, 20), C.after, C().m())\n"
    ),
    "loops_top_and_in_def": (
        "n = 0\nwhile n < 2:\n    n += 1\nimport os\ndef f(k):\n    while k:\n        k -= 1\n        if k == 1:\n            break\n    return k\n"
        "def g(xs):\n    for x in xs:\n        if x:\n            break\n    from os import sep\n    return sep\nfor i in range(2):\n    if i:\n        break\nprint(f(3), g([0, 1]), n)\n"
    ),
    "global_decl": "g = 0\ndef f():\n    global g\n    g += 1\n    return g\nf()\nprint(g)\n",
    # --- classes -------------------------------------------------------------------
    "class_super": (
        "class A:\n    def __init__(self):\n        self.v = 1\nclass B(A):\n    def __init__(self):\n        super().__init__()\n"
        "        self.w = 2\nb = B()\nprint(b.v, b.w)\n"
    ),
    "class_members": "class C:\n    x = 1\n    y = x + 1\n    def m(self):\n        return self.y\n    z = [y for _ in range(2)]\nprint(C().m())\n",
    "class_kw": (
        "class M(type):\n    def __new__(mcs, name, bases, ns, **kw):\n        return super().__new__(mcs, name, bases, ns)\n"
        "class K(metaclass=M, flag=1):\n    pass\nprint(type(K).__name__)\n"
    ),
    "init_subclass": "class P:\n    def __init_subclass__(cls, **kw):\n        cls.kw = kw\nclass Q(P, a=1):\n    pass\nprint(Q.kw)\n",
    # --- assignment forms ----------------------------------------------------------
    "destructure": "a, (b, *c), d = 1, (2, 3, 4), 5\n[e, f] = a, b\nx = y = c\nprint(a, b, c, d, e, f, x, y)\n",
    "aug_forms": "d = {'k': [1]}\nclass O:\n    v = 1\no = O()\nd['k'] += [2]\no.v -= 3\nn = 2\nn **= 3\nl = [1, 2, 3, 4]\nl[1:3] *= 2\nprint(d, o.v, n, l)\n",
    "annassign": "x: int = 3\ny: str\nprint(x)\n",
    "walrus_fn": "def f(q):\n    def g():\n        return q\n    if (n := q + 1) > 1:\n        return [n, g()]\n    return n\nprint(f(1))\n",
    # --- expressions / unparser ----------------------------------------------------
    "fstring": "w = 'x'\nd = {'a': 1}\nprint(f\"{w!r:>5} {d['a']:03d} {{}} {'q' + w}\")\nprint(f'{w}' \"it's\" '\"')\n",
    "strings": "s = 'caf\\u00e9 \\u4e2d\\u6587 \\x00 \\n \\' \"'\nb = b'\\x00\\xff'\nprint(s, b, 1.5e300, 1j, -1, ...)\n",
    "prec": "a = 2\nb = (a + 1) * -a ** 2 // 3 % 5\nc = not a or (a and b) if a < b <= 9 else (lambda z: z)(a)\nd = (a, b)[0:1]\nprint(b, c, d, (1).real, [*d, *d], {**{}})\n",
    "comps": "m = [[i * j for i in range(3) if i] for j in range(2)]\ns = {k: v for k, v in zip('ab', m)}\ng = sum(x for x in range(4))\nprint(m, s, g, {i for i in 'aab'})\n",
    "lambda_forms": "f = lambda a, /, b=2, *c, d, e=5, **k: (a, b, c, d, e, k)\nprint(f(1, d=4))\n",
    "decorated": "def deco(fn):\n    return lambda *a: fn(*a) + 1\n@deco\n@deco\ndef h(v):\n    return v\nprint(h(1))\n",
    "defaults": "def f(a, b=1, *args, c, d=2, **kw):\n    return a, b, args, c, d, kw\nprint(f(0, c=1))\n",
    "recursion": "def fact(n):\n    if n <= 1:\n        return 1\n    return n * fact(n - 1)\nprint(fact(5))\n",
    "many_returns": (
        "def f(v):\n    while v:\n        for q in range(v):\n            if q == 2:\n                return 'two'\n            if q == 5:\n                break\n"
        "        v -= 1\n        if v == 7:\n            continue\n    else:\n        return 'else'\n    return 'end'\nprint(f(3), f(1))\n"
    ),
    # --- the sentinel: touches every option-sensitive and every shared-state site ------
    "sentinel": (
        "import os\nfrom os import sep\nt = 0\nif t:\n    print('a')\n    print('b')\nelse:\n    print('c')\n    print('d')\n"
        "while t < 5:\n    t += 1\n    if t == 3:\n        break\nfor u in range(4):\n    if u == 2:\n        break\n"
        "def fn(p, q, r):\n    def inner():\n        return p + q + r\n    for w in range(3):\n        if w:\n            return inner()\n"
        "class K:\n    def m(self):\n        return 'caf\\u00e9'\nprint(fn(1, 2, 3), K().m(), [z for z in 'ab'])\n"
    ),
}

# programs whose conversion fails for a reason that is part of the library's contract
FAILING = {
    "fail_try": "a = 1\ntry:\n    pass\nexcept Exception:\n    pass\n",
    "fail_break": "a = 1\nbreak\n",
    "fail_return": "def f():\n    return 1\nreturn 2\n",
    "fail_star2": "*a, *b = [1, 2]\n",
    "fail_with": "for i in range(3):\n    with open('x') as f:\n        pass\n",
    "fail_syntax": "def (:\n",
    "fail_in_class": "class Shape:\n    k = 1\n    def area(self):\n        raise NotImplementedError\n",
    "fail_in_nested_function": "def outer(a):\n    def inner(b):\n        for i in range(b):\n            assert i\n        return a\n    return inner\n",
    "fail_in_comprehension_class": "class K:\n    v = [x for x in range(3)]\n    del v\n",
    # deeply nested EXPRESSIONS (the statement-count programs above nest the wrapper calls instead)
    "fail_hugehex_then_deep": "h = 0x1%s\ny = %s\n" % ("0" * 4000, " + ".join(["1"] * 700)),
    "fail_class_then_deep": "class K:\n    v = 1\nimport os\ni = 0\nwhile i < 2:\n    i += 1\nfor j in range(3):\n    if j:\n        break\ny = %s\n" % " + ".join(["1"] * 700),
    "fail_deep_binop": "x = " + " + ".join(["1"] * 700) + "\nprint(x)\n",
    "fail_deep_attr": "import os\nx = os" + ".path" * 600 + "\n",
    "fail_deep_calls": "f = lambda v: v\nx = " + "f(" * 150 + "1" + ")" * 150 + "\nprint(x)\n",
    "fail_huge_int": "x = 1%s\nprint(x %% 7)\n" % ("0" * 4400),
    "fail_huge_int_hex": "x = 0x1%s\nprint(x %% 7)\n" % ("0" * 4000),
    "fail_continue": "a = 1\nif a:\n    continue\n",
    "fail_mid_expression": "data = [(1, [2, 3])]\nx = sorted([h for h, *rest in data], key=len)\ny = 2\n",
    "fail_deep_loop": "def f():\n    for i in range(3):\n        while i:\n            class K:\n                [q for q in range(3)]\n                del i\n",
    # far beyond the ~480 statement threshold: RecursionError under chain_call+ast.unparse
    "fail_big": "x = 0\n" * 2000,
}


# size-related programs (kept out of the depth knob and of the 'small' sets by their prefix)
BIG = {
    "long_identifiers": "%s = 1\ndef %s(%s):\n    def inner():\n        return %s + %s\n    return inner\nprint(%s(2)())\n" % (
        "v" * 300, "f" * 260, "p" * 270, "p" * 270, "v" * 300, "f" * 260),
    "long_string": "s = %r\nt = f'{s[:3]}%s{{}}'\nprint(len(s), len(t))\n" % ("ab'\"c\\" * 1200, "x" * 5000),
    "big_ints": "a = %d\nb = -%d\nc = 0x%x\nd = 1e400\ne = %d.5\nprint(a, b, c, d, e)\n" % (2 ** 63, 2 ** 64 + 1, 2 ** 200, 2 ** 70),
    "many_args": "def f(*a, **k):\n    return len(a) + len(k)\nprint(f(%s, %s))\n" % (
        ", ".join(str(i) for i in range(260)), ", ".join("k%d=%d" % (i, i) for i in range(260))),
    "many_names": "".join("n%d = %d\n" % (i, i) for i in range(130)) + "print(n0 + n129)\n",
    "many_statements_260": "".join("s%d = %d\n" % (i, i) for i in range(259)) + "print(s0 + s258)\n",
    "many_functions": "".join("def fn%d(a, b):\n    def g():\n        return a + b + %d\n    return g\n" % (i, i) for i in range(40)) + "print(fn0(1, 2)() + fn39(1, 2)())\n",
    "deep_nesting": "x = 0\n" + "".join("%sif x == %d:\n" % ("    " * i, i) for i in range(18)) + "    " * 18 + "x += 1\n" + "print(x)\n",
}


def load_pool() -> dict:
    pool = {}
    pdir = os.path.join(VERIF_DIR, "pool")
    for name in sorted(os.listdir(pdir)):
        if name.endswith(".py"):
            with open(os.path.join(pdir, name), encoding="utf-8") as f:
                pool["file:" + name[:-3]] = f.read()
    for k in sorted(SHORT):
        pool["short:" + k] = SHORT[k]
    for k in sorted(BIG):
        pool["big:" + k] = BIG[k]
    for k in sorted(FAILING):
        pool["fail:" + k] = FAILING[k]
    return pool


SENTINEL = "short:sentinel"

# ------------------------------------------------------------------------------------------
# seeded grammar
# ------------------------------------------------------------------------------------------

_GLOBAL_NAMES = ["ga", "gb", "gc", "gd"]
_PARAMS = ["pa", "pb", "pc", "pd", "pe", "pf"]
_LOCALS = ["la", "lb", "lc"]


class ProgGen:
    """Generates a module source from a private PRNG.  Conservative about scoping so that most
    candidates pass ``symtable``; the caller verifies and retries."""

    def __init__(self, rng: random.Random, budget: int = 24):
        self.rng = rng
        self.budget = budget
        self.uid = 0

    def fresh(self, prefix):
        self.uid += 1
        return "%s%d" % (prefix, self.uid)

    # -- expressions ----------------------------------------------------------------
    def atom(self, names):
        r = self.rng
        c = r.random()
        if names and c < 0.55:
            return r.choice(names)
        if c < 0.75:
            return str(r.randint(0, 9))
        if c < 0.85:
            return repr(r.choice(["s", "it's", 'q"', "caf\u00e9", "\\", "{}"]))
        return r.choice(["None", "True", "[]", "()", "{}", "..."])

    def expr(self, names, depth=0):
        r = self.rng
        if depth > 2 or r.random() < 0.35:
            return self.atom(names)
        c = r.random()
        if c < 0.3:
            op = r.choice(["+", "-", "*", "//", "%", "**", "|", "&", "<<", "and", "or", "<", "==", "is not", "in"])
            return "(%s %s %s)" % (self.expr(names, depth + 1), op, self.expr(names, depth + 1))
        if c < 0.4:
            return "%s %s" % (r.choice(["not", "-", "~"]), self.atom(names))
        if c < 0.5:
            return "(%s if %s else %s)" % (self.expr(names, depth + 1), self.expr(names, depth + 1), self.atom(names))
        if c < 0.6:
            # comprehension targets come from the vocabulary shared by all roles and all programs
            # (a name that is a comprehension target here is a captured variable, a class member or
            # a global elsewhere), single or tuple
            form = r.random()
            if form < 0.35:
                v = self.fresh("cv")
                return "[%s for %s in range(%d) if %s]" % (self.expr(names + [v], depth + 1), v, r.randint(0, 3), self.atom(names + [v]))
            vocab = _PARAMS + _LOCALS + _GLOBAL_NAMES + ["k", "v"]
            if form < 0.6:
                v = r.choice(vocab)
                return "[%s for %s in range(%d)]" % (self.expr(names + [v], depth + 1), v, r.randint(0, 3))
            a, b = r.sample(vocab, 2)
            inner = self.expr(names + [a, b], depth + 1)
            reads = [n for n in names if n not in (a, b)]
            extra = (", " + ", ".join(r.sample(reads, min(len(reads), 2)))) if reads and r.random() < 0.7 else ""
            kind = r.choice(["list", "dict", "set", "gen"])
            src_it = "[(%s, %s)]" % (self.atom(names), self.atom(names))
            if kind == "dict":
                return "{%s: (%s%s) for %s, %s in %s}" % (a, inner, extra, a, b, src_it)
            if kind == "set":
                return "{(%s%s) for (%s, %s) in %s}" % (a, extra, a, b, src_it)
            if kind == "gen":
                return "list((%s, %s%s) for [%s, %s] in %s)" % (a, b, extra, a, b, src_it)
            return "[(%s%s) for %s, %s in %s if %s]" % (inner, extra, a, b, src_it, a)
        if c < 0.68:
            lp = r.choice(["lx", "k", "v"] + _PARAMS[:2])
            return "(lambda %s: %s)(%s)" % (lp, self.expr(names + [lp], depth + 1), self.atom(names))
        if c < 0.76:
            return "f\"{%s!r:>4}{{x}}\"" % self.atom(names)
        if c < 0.84:
            return "print(%s, %s)" % (self.atom(names), self.expr(names, depth + 1))
        if c < 0.9:
            return "[%s, %s][%s]" % (self.expr(names, depth + 1), self.atom(names), r.choice(["0", "-1", "0:1", "::2"]))
        if c < 0.95:
            return "{%s: %s}" % (self.atom(names), self.expr(names, depth + 1))
        return "(%s := %s)" % (self.fresh("wv"), self.expr(names, depth + 1))

    # -- statements -----------------------------------------------------------------
    def block(self, ind, ctx, names, n=None):
        r = self.rng
        n = n if n is not None else r.randint(1, 3)
        out = []
        for _ in range(n):
            if self.budget <= 0:
                break
            out.extend(self.stmt(ind, ctx, names))
        if not out:
            out = [ind + "pass"]
        return out

    def stmt(self, ind, ctx, names):
        r = self.rng
        self.budget -= 1
        kinds = ["assign", "assign", "aug", "expr", "if", "while", "for", "def", "class", "import", "destruct", "pass"]
        if ctx["loop"]:
            kinds += ["break", "continue", "break"]
        if ctx["func"]:
            kinds += ["return", "return"]
        if ctx["depth"] >= 3:
            kinds = [k for k in kinds if k not in ("def", "class", "while", "for", "if")] or ["pass"]
        k = r.choice(kinds)
        sub = dict(ctx, depth=ctx["depth"] + 1)
        if k == "assign":
            tgt = r.choice(ctx["assignable"])
            if tgt not in names:
                names.append(tgt)
            return [ind + "%s = %s" % (tgt, self.expr(names))]
        if k == "aug":
            avail = [n for n in ctx["assignable"] if n in names]
            if not avail:
                return [ind + "pass"]
            tgt = r.choice(avail)
            form = r.random()
            op = r.choice(["+=", "-=", "*=", "//=", "|=", "**="])
            if form < 0.6:
                return [ind + "%s %s %s" % (tgt, op, self.expr(names))]
            if form < 0.8:
                return [ind + "%s[%s] %s %s" % (tgt, self.atom(names), op, self.expr(names))]
            return [ind + "%s.attr %s %s" % (tgt, op, self.expr(names))]
        if k == "expr":
            return [ind + self.expr(names)]
        if k == "destruct":
            a, b, c = (r.choice(ctx["assignable"]) for _ in range(3))
            for t in (a, b, c):
                if t not in names:
                    names.append(t)
            form = r.choice(["%s, %s = %s", "%s, *%s = %s", "[%s, (%s, %s)] = %s", "%s = %s = %s"])
            if form.count("%s") == 4:
                return [ind + form % (a, b, c, self.expr(names))]
            return [ind + form % (a, b, self.expr(names))]
        if k == "if":
            out = [ind + "if %s:" % self.expr(names)]
            out += self.block(ind + "    ", sub, names)
            if r.random() < 0.4:
                out += [ind + "elif %s:" % self.expr(names)] + self.block(ind + "    ", sub, names)
            if r.random() < 0.5:
                out += [ind + "else:"] + self.block(ind + "    ", sub, names)
            return out
        if k == "while":
            lsub = dict(sub, loop=True)
            out = [ind + "while %s:" % self.expr(names)] + self.block(ind + "    ", lsub, names)
            if r.random() < 0.3:
                out += [ind + "else:"] + self.block(ind + "    ", sub, names)
            return out
        if k == "for":
            lsub = dict(sub, loop=True)
            tgt = r.choice(ctx["assignable"])
            if tgt not in names:
                names.append(tgt)
            out = [ind + "for %s in range(%d):" % (tgt, r.randint(0, 4))] + self.block(ind + "    ", lsub, names)
            if r.random() < 0.3:
                out += [ind + "else:"] + self.block(ind + "    ", sub, names)
            return out
        if k == "def":
            fname = self.fresh("fn")
            nparams = r.randint(0, 6)
            params = r.sample(_PARAMS, nparams)
            sig = []
            for i, p in enumerate(params):
                if i >= 3 and r.random() < 0.4:
                    sig.append("%s=%s" % (p, self.atom([])))
                else:
                    sig.append(p)
            # defaults must trail
            sig.sort(key=lambda s: "=" in s)
            if r.random() < 0.2:
                sig.append("*rest")
            locs = [self.fresh("lv") for _ in range(2)]
            fctx = dict(depth=ctx["depth"] + 1, loop=False, func=True, cls=False, assignable=locs + params[:1])
            inner_names = list(params) + [n for n in names if not n.startswith("lv") or ctx["func"]]
            out = [ind + "def %s(%s):" % (fname, ", ".join(sig))]
            body = []
            if r.random() < 0.25 and ctx["func"]:
                outer_assignable = [n for n in ctx["assignable"] if n in names and not n.startswith("g")]
                if outer_assignable:
                    nl = r.choice(outer_assignable)
                    body.append(ind + "    nonlocal %s" % nl)
                    fctx["assignable"] = [a for a in fctx["assignable"] if a != nl] + [nl]
            elif r.random() < 0.2:
                g = r.choice(_GLOBAL_NAMES)
                if g not in params:
                    body.append(ind + "    global %s" % g)
                    fctx["assignable"] = fctx["assignable"] + [g]
                    inner_names = [n for n in inner_names if n != g] + [g]
            body += self.block(ind + "    ", fctx, inner_names, n=r.randint(1, 4))
            out += body
            names.append(fname)
            if r.random() < 0.5:
                out.append(ind + "%s(%s)" % (fname, ", ".join(self.atom(names) for _ in range(nparams))))
            return out
        if k == "class":
            cname = self.fresh("Cls")
            members = [self.fresh("m") for _ in range(2)]
            cctx = dict(depth=ctx["depth"] + 1, loop=False, func=False, cls=True, assignable=members)
            out = [ind + "class %s%s:" % (cname, r.choice(["", "(object)", "()"]))]
            out += self.block(ind + "    ", cctx, list(names), n=r.randint(1, 3))
            for mi in range(r.choice([0, 1, 1, 2])):
                # methods read names of the enclosing scopes (-> free variables next to the implicit
                # __class__ cell when super()/__class__ is used)
                mlocs = [self.fresh("lv")]
                mctx = dict(depth=ctx["depth"] + 2, loop=False, func=True, cls=False, assignable=mlocs)
                mnames = ["self", "mp"] + [n for n in names if not n.startswith("m")]
                out.append(ind + "    def meth%d(self, mp=None):" % mi)
                out += self.block(ind + "        ", mctx, mnames, n=r.randint(0, 2)) if r.random() < 0.6 else []
                tail = r.choice(["super().__repr__()", "mp", "self", "__class__", "super().__init__()", "__class__.__name__"])
                reads = [n for n in mnames if n not in ("self", "mp")]
                if reads and r.random() < 0.7:
                    tail = "(%s, %s)" % (tail, ", ".join(r.sample(reads, min(len(reads), r.randint(1, 3)))))
                out.append(ind + "        return %s" % tail)
            names.append(cname)
            return out
        if k == "import":
            if ctx["cls"] and r.random() < 0.5:
                return [ind + "import os"]
            return [ind + r.choice(["import os", "import os.path as osp", "from os import sep", "from os import sep as sp, path", "import sys, os"])]
        if k == "break":
            return [ind + r.choice(["break", "if %s:\n%s    break" % (self.atom(names), ind)])]
        if k == "continue":
            return [ind + "continue"]
        if k == "return":
            return [ind + r.choice(["return", "return %s" % self.expr(names)])]
        return [ind + "pass"]

    def module(self) -> str:
        ctx = dict(depth=0, loop=False, func=False, cls=False, assignable=list(_GLOBAL_NAMES))
        names = []
        lines = self.block("", ctx, names, n=self.rng.randint(2, 6))
        return "\n".join(lines) + "\n"


def gen_program(seed: int) -> str:
    """A module that parses and passes symtable (verified), derived from ``seed`` only."""
    for attempt in range(20):
        rng = random.Random(seed * 1000003 + attempt)
        src = ProgGen(rng, budget=rng.choice([8, 16, 24, 32])).module()
        if "__ol_" in src:
            continue
        try:
            with warnings.catch_warnings():
                warnings.simplefilter("ignore")
                ast.parse(src)
                symtable.symtable(src, "<gen>", "exec")
                compile(src, "<gen>", "exec")
        except (SyntaxError, ValueError, RecursionError):
            continue
        return src
    return "ga = %d\nprint(ga)\n" % (seed % 97)


def variant_of(src: str, rng: random.Random) -> str:
    """A near-duplicate of a program: same length (one digit or one lower-case letter inside a
    string/number changed), or one statement appended, or a comment line prepended (every line
    number shifts).  Pairs (p, variant) in one history defeat memo tables keyed by length, prefix,
    hash of a prefix or (lineno, col, name).  Verified to compile; falls back to the original."""
    kind = rng.choice(["digit", "digit", "append", "prepend", "append_use"])
    cand = src
    if kind == "digit":
        idx = [i for i, ch in enumerate(src) if ch.isdigit() and (i == 0 or not (src[i - 1].isalpha() or src[i - 1] == "_"))]
        if idx:
            i = rng.choice(idx)
            new = rng.choice([d for d in "123456789" if d != src[i]])
            cand = src[:i] + new + src[i + 1:]
    elif kind == "append":
        cand = src + ("" if src.endswith("\n") or not src else "\n") + "zz_tail = %d\n" % rng.randint(0, 9)
    elif kind == "append_use":
        cand = src + ("" if src.endswith("\n") or not src else "\n") + "print('tail', %d)\n" % rng.randint(0, 9)
    else:
        cand = "# %s\n" % ("x" * rng.randint(0, 5)) + src
    try:
        with warnings.catch_warnings():
            warnings.simplefilter("ignore")
            compile(cand, "<variant>", "exec")
            symtable.symtable(cand, "<variant>", "exec")
    except (SyntaxError, ValueError, RecursionError):
        return src
    return cand


def deletion_variants(src: str, limit: int = 10) -> list:
    """Programs obtained by deleting ONE top-level statement (those that still compile), at most
    `limit` of them, evenly spread.  (p, p-minus-a-statement) share every other definition verbatim:
    the pairs defeat memo tables keyed by the text / AST dump of a function or class."""
    try:
        tree = ast.parse(src)
    except (SyntaxError, ValueError, RecursionError):
        return []
    lines = src.split("\n")
    body = tree.body
    if len(body) < 2:
        return []
    idxs = list(range(len(body)))
    if len(idxs) > limit:
        step = len(idxs) / float(limit)
        idxs = [idxs[int(i * step)] for i in range(limit)]
    out = []
    for i in idxs:
        st = body[i]
        start = min([st.lineno] + [d.lineno for d in getattr(st, "decorator_list", [])]) - 1
        end = st.end_lineno
        cand = "\n".join(lines[:start] + lines[end:])
        try:
            with warnings.catch_warnings():
                warnings.simplefilter("ignore")
                compile(cand, "<del>", "exec")
                symtable.symtable(cand, "<del>", "exec")
        except (SyntaxError, ValueError, RecursionError):
            continue
        if cand.strip() and cand != src:
            out.append(cand)
    return out
