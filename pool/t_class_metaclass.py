class Meta(type):
    def __new__(cls, name, bases, dct, **kw):
        x = super().__new__(cls, name, bases, dct, **kw)
        x.attr = 1234
        return x


class Bar:
    def __init_subclass__(cls, hello="") -> None:
        print(f"hello {hello}")


class Foo(Bar, metaclass=Meta, hello="world"):
    pass


print(Foo.attr)
