"""Driver for the C10 check: phases, shrinking, replay, evidence."""
from __future__ import annotations

import ast
import json
import os
import time

from . import progs
from .coord import PY311, PY312, Fleet, default_jobs, eprint, fresh_worker, hashseeds_for
from .core import (OPTION_NAMES, OPTION_SPACE, HarnessError, Timer, all_option_sets, ddmin, derive_seed, digest,
                   match_known, write_evidence, write_replay)

PROP = "C10"
BATCH = 40

FULL_MKEYS = ["-|-|-"] + ["|".join(o[n] for n in OPTION_NAMES) for o in all_option_sets()]

FLOOR_PROGS = ["short:sentinel", "short:if_chain", "short:capt5"]


def tier_params(tier: str) -> dict:
    if tier == "thorough":
        return dict(n_hash=16, replicas=1, n_hash311=6, histories=int(os.environ.get("VERIF_C10_HISTORIES", 400000)),
                    floor_len=3, crash_enum=["short:while_break", "short:for_break", "short:capt2", "short:if_chain",
                                             "short:class_super", "short:from_import"],
                    gen_o2=600, determinism_pairs=200, max_len=12, hunt_stmts=6000,
                    hunt_runs=int(os.environ.get("VERIF_C10_HUNT", 3000)), pair_models=all_option_sets(), oo_len=6, del_variants=12,
                    triples=not os.environ.get("VERIF_C10_NOTRIPLES"))
    return dict(n_hash=8, replicas=2, n_hash311=0, histories=int(os.environ.get("VERIF_C10_HISTORIES", 9000)),
                floor_len=3, crash_enum=["short:for_break"], gen_o2=240, determinism_pairs=32, max_len=12,
                hunt_stmts=6000, hunt_runs=int(os.environ.get("VERIF_C10_HUNT", 112)),
                pair_models=[{"unparser": "oneliner", "expr_wrapper": "list", "if_style": "short_circuit"}], oo_len=5, triples=False,
                pair_models_short_only=True)


# ---------------------------------------------------------------------------------------------
# systematic floor: every history of length <= 3 over a reduced alphabet
# ---------------------------------------------------------------------------------------------


def floor_alphabet(mid_k: int) -> list:
    acts = []
    for oid in ("o1", "o2"):
        for name in OPTION_NAMES:
            acts.append({"op": "set", "obj": oid, "name": name, "value": OPTION_SPACE[name][1]})
        acts.append({"op": "set", "obj": oid, "name": "if_style", "value": "if_expr"})
    acts.append({"op": "set", "obj": "o1", "name": "expr_wrapper", "value": "bogus"})
    acts.append({"op": "reseed", "n": 1})
    acts.append({"op": "churn", "n": 64, "name": "expr_wrapper", "value": "list", "gc": False})
    acts.append({"op": "del", "obj": "o1", "gc": True})
    acts.append({"op": "abort_conv", "prog": FLOOR_PROGS[0], "obj": None, "mode": "line", "k": mid_k, "exc": "SimAbort"})
    acts.append({"op": "conv", "prog": "fail:fail_try", "obj": "o1"})
    convs = []
    for p in FLOOR_PROGS:
        for oid in ("o1", "o2", None):
            convs.append({"op": "conv", "prog": p, "obj": oid})
    return acts, convs


def floor_histories(mid_k: int, max_len: int) -> list:
    acts, convs = floor_alphabet(mid_k)
    prefix = [{"op": "new", "id": "o1"}, {"op": "new", "id": "o2"}]
    allacts = acts + convs
    out = []
    for last in convs:
        out.append(prefix + [last])
    if max_len >= 2:
        for a in allacts:
            for last in convs:
                out.append(prefix + [a, last])
    if max_len >= 3:
        for a in allacts:
            for b in allacts:
                # two conversions followed by a conversion only matter through shared state;
                # keep them: that is exactly what the floor is for
                for last in convs:
                    out.append(prefix + [a, b, last])
    return out


# ---------------------------------------------------------------------------------------------
# shrinking
# ---------------------------------------------------------------------------------------------


def _viol_class(v: dict) -> tuple:
    return (v["oracle"], v["class"])


class Shrinker:
    def __init__(self, fleet: Fleet, group: int, target: tuple, budget: int = 500):
        self.fleet = fleet
        self.group = group
        self.target = target
        self.budget = budget
        self.tests = 0
        self.w = fleet.groups[group][0]

    def fails(self, ops: list) -> bool:
        if self.tests >= self.budget:
            return False
        self.tests += 1
        desc = {"prop": PROP, "seed": 0, "ops": ops, "extend": True}
        t0 = time.monotonic()
        r = self.w.request({"cmd": "c10_check", "desc": desc})
        if self.tests == 1:
            # keep the whole shrink under about a minute even for very large programs
            dt = max(time.monotonic() - t0, 1e-3)
            self.budget = max(8, min(self.budget, int(60.0 / dt)))
        return any(_viol_class(v) == self.target for v in r["violations"])

    def shrink(self, ops: list) -> list:
        ops = ddmin(ops, self.fails, max_tests=self.budget)
        ops = self.simplify_ops(ops)
        ops = ddmin(ops, self.fails, max_tests=self.budget)
        ops = self.shrink_sources(ops)
        return ops

    def simplify_ops(self, ops: list) -> list:
        small = sorted((k for k in progs.load_pool() if k.startswith("short:")),
                       key=lambda k: (len(progs.load_pool()[k]), k))
        pool = progs.load_pool()
        small = [k for k in small if 0 < len(pool[k])][:14]
        ops = [dict(o) for o in ops]
        for i, op in enumerate(ops):
            if op["op"] in ("conv", "abort_conv"):
                cur = op.get("src") if "src" in op else pool[op["prog"]]
                if op["op"] == "conv":
                    for k in small:
                        if len(pool[k]) >= len(cur):
                            break
                        cand = [dict(o) for o in ops]
                        cand[i] = {kk: vv for kk, vv in op.items() if kk not in ("src", "prog")}
                        cand[i]["prog"] = k
                        if self.fails(cand):
                            ops = cand
                            op = ops[i]
                            break
                if op["op"] == "abort_conv":
                    if op.get("exc") != "SimAbort":
                        cand = [dict(o) for o in ops]
                        cand[i]["exc"] = "SimAbort"
                        if self.fails(cand):
                            ops = cand
                            op = ops[i]
                    if op.get("mode") == "line":
                        k = op["k"]
                        for nk in sorted({1, 2, 3, 5, 8, k // 16, k // 8, k // 4, k // 2, (3 * k) // 4}):
                            if 0 < nk < ops[i]["k"]:
                                cand = [dict(o) for o in ops]
                                cand[i]["k"] = nk
                                if self.fails(cand):
                                    ops = cand
                                    break
                    # an abort that is not needed at all: turn into a plain conversion
                    cand = [dict(o) for o in ops]
                    cand[i] = {kk: vv for kk, vv in ops[i].items() if kk in ("prog", "src", "obj")}
                    cand[i]["op"] = "conv"
                    if self.fails(cand):
                        ops = cand
            elif op["op"] == "reseed" and op.get("n") != 0:
                cand = [dict(o) for o in ops]
                cand[i]["n"] = 0
                if self.fails(cand):
                    ops = cand
            elif op["op"] == "draw" and op.get("k") != 1:
                cand = [dict(o) for o in ops]
                cand[i]["k"] = 1
                if self.fails(cand):
                    ops = cand
        return ops

    def shrink_sources(self, ops: list) -> list:
        """Line-wise ddmin of program sources (made inline) while they still compile."""
        pool = progs.load_pool()
        for i in range(len(ops)):
            op = ops[i]
            if op["op"] not in ("conv", "abort_conv"):
                continue
            src = op.get("src") if "src" in op else pool[op["prog"]]
            lines = src.split("\n")
            if len(lines) > 60 or len(lines) < 3:
                continue

            def test(cand_lines, i=i):
                s = "\n".join(cand_lines)
                try:
                    compile(s, "<shrink>", "exec")
                except (SyntaxError, ValueError, RecursionError):
                    return False
                cand = [dict(o) for o in ops]
                cand[i] = {kk: vv for kk, vv in cand[i].items() if kk != "prog"}
                cand[i]["src"] = s
                return self.fails(cand)

            new_lines = ddmin(lines, test, max_tests=120)
            if len(new_lines) < len(lines):
                s = "\n".join(new_lines)
                cand = [dict(o) for o in ops]
                cand[i] = {kk: vv for kk, vv in cand[i].items() if kk != "prog"}
                cand[i]["src"] = s
                if self.fails(cand):
                    ops = cand
        return ops


def signature_of(ops: list, vclass: tuple) -> str:
    parts = []
    for op in ops:
        k = op["op"]
        if k in ("set", "abort_set"):
            legal = op["value"] in OPTION_SPACE.get(op["name"], [])
            parts.append("%s(%s,%s)" % (k, op["name"], "legal" if legal else "illegal"))
        elif k in ("conv", "abort_conv"):
            parts.append("%s(%s)" % (k, "none" if op.get("obj") is None else "obj"))
        else:
            parts.append(k)
    return "%s/%s/%s" % (vclass[0], vclass[1], "+".join(parts))


def verify_replay(repo: str, doc: dict) -> dict:
    """Run a replay document in a brand-new interpreter; returns {'reproduced': bool, ...}."""
    kind = doc.get("kind", "history")
    if kind == "history":
        t = doc["template"]
        with fresh_worker(repo, t["exe"], int(t["hashseed"]), int(t.get("pad", 0)), int(t.get("opt", 0))) as fl:
            r = fl.groups[0][0].request({"cmd": "c10_check", "desc": doc["desc"], "events": True})
        classes = sorted({"%s/%s" % _viol_class(v) for v in r["violations"]})
        want = "%s/%s" % tuple(doc["violation_class"])
        return {"reproduced": want in classes, "classes": classes, "digest": r["digest"],
                "same_digest": r["digest"] == doc.get("digest"), "result": r.get("result"), "violations": r["violations"]}
    if kind == "envdep":
        outs = []
        for hs, pad, opt in zip(doc["hashseeds"], doc.get("pads") or [0, 0], doc.get("opts") or [0, 0]):
            with fresh_worker(repo, doc["exe"], int(hs), int(pad), int(opt)) as fl:
                r = fl.groups[0][0].request({"cmd": "c10_ref_src", "src": doc["src"], "mkeys": [doc["mkey"]], "text": True})
            outs.append(r[doc["mkey"]])
        a, b = outs
        differ = (a.get("norm"), a.get("exc")) != (b.get("norm"), b.get("exc"))
        return {"reproduced": differ, "outs": outs}
    raise HarnessError("unknown replay kind %r" % kind)


# ---------------------------------------------------------------------------------------------
# main entry
# ---------------------------------------------------------------------------------------------


def run(repo: str, tier: str, seed: int, replay_dir=None, write_ev=True, jobs=None, quiet=False) -> int:
    T = Timer()
    P = tier_params(tier)
    jobs = jobs or default_jobs()
    hs = hashseeds_for(seed, P["n_hash"])
    pads = [0, 0] + [derive_seed(seed, "pad", i) % 4000 for i in range(len(hs))]
    # every fourth template runs with -O (asserts stripped): the text must not depend on it
    # template 3 runs with -O, 5 with -X dev, 6 with -W error, 7 with -OO (then every 8th likewise): the
    # text must not depend on interpreter start-up flags
    flag_of = {3: 1, 5: 2, 6: 3, 7: 4}
    specs = [(PY312, h, pads[i], flag_of.get(i % 8, 0)) for i, h in enumerate(hs)]
    if P["n_hash311"] and os.path.exists(PY311):
        specs += [(PY311, h, pads[i], flag_of.get(i % 8, 0)) for i, h in enumerate(hs[: P["n_hash311"]])]
    n12 = len(hs)
    violations = []   # (doc, signature)
    notes = []
    cov = {
        "evaluations": 0, "probes": {}, "faults_fired": {}, "abort_sites": {}, "phases": {},
    }
    states, transitions, desc_digests = set(), set(), set()
    samples = []

    def log(*a):
        if not quiet:
            eprint("[C10 %6.1fs]" % T.s(), *a)

    with Fleet(repo, specs, replicas=P["replicas"], jobs=jobs) as fleet:
        log("fleet up: %d templates (%d groups), jobs=%d" % (len(fleet.workers()), len(fleet.groups), jobs))
        groups12 = list(range(n12))
        all_groups = list(range(len(fleet.groups)))

        # ---- phase O2: environment independence of the reference model -------------------
        tables = fleet.run([(g, {"cmd": "c10_reftable", "mkeys": FULL_MKEYS}) for g in all_groups])
        o2_pairs = 0
        o2_fail = {}
        for g in all_groups:
            base = 0 if g < n12 else n12  # compare only templates of the same host
            if g == base:
                continue
            for key in sorted(tables[base]):
                o2_pairs += 1
                if tables[g].get(key) != tables[base][key] and key not in o2_fail:
                    o2_fail[key] = (base, g)
        cov["phases"]["O2_pool"] = {"entries_per_template": len(tables[0]), "templates": len(all_groups),
                                    "pairs_compared": o2_pairs, "mismatching_entries": len(o2_fail)}
        cov["evaluations"] += sum(len(t) for t in tables)
        log("O2 pool: %d entries x %d templates, %d mismatches" % (len(tables[0]), len(all_groups), len(o2_fail)))

        # O2 on generated programs
        gen_srcs = [progs.gen_program(derive_seed(seed, "o2prog", i)) for i in range(P["gen_o2"])]
        gjobs = []
        for i, src in enumerate(gen_srcs):
            mk = FULL_MKEYS[i % len(FULL_MKEYS)]
            for g in groups12:
                gjobs.append((g, {"cmd": "c10_ref_src", "src": src, "mkeys": [mk]}))
        gres = fleet.run(gjobs)
        gi = 0
        o2g_fail = []
        for i, src in enumerate(gen_srcs):
            mk = FULL_MKEYS[i % len(FULL_MKEYS)]
            outs = []
            for g in groups12:
                r = gres[gi][mk]
                gi += 1
                outs.append(r.get("sha") or json.dumps(r.get("exc")))
            for g in groups12[1:]:
                if outs[g] != outs[0]:
                    o2g_fail.append((src, mk, 0, g))
                    break
        cov["phases"]["O2_generated"] = {"programs": len(gen_srcs), "templates": len(groups12), "mismatches": len(o2g_fail)}
        cov["evaluations"] += len(gjobs)
        log("O2 generated: %d programs, %d mismatches" % (len(gen_srcs), len(o2g_fail)))

        pool = progs.load_pool()
        o2_items = []
        for key in sorted(o2_fail)[:3]:
            pid, mk = key.rsplit("@", 1)
            a, b = o2_fail[key]
            o2_items.append((pool[pid], mk, a, b, pid))
        for src, mk, a, b in o2g_fail[:2]:
            o2_items.append((src, mk, a, b, "generated"))
        seen_sig = set()
        for src, mk, a, b, pid in o2_items:
            exe = fleet.specs[a][0]
            ha, hb = fleet.specs[a][1], fleet.specs[b][1]
            wa, wb = fleet.groups[a][0], fleet.groups[b][0]

            def differs(lines, mk=mk, wa=wa, wb=wb):
                s = "\n".join(lines)
                try:
                    compile(s, "<shrink>", "exec")
                except (SyntaxError, ValueError, RecursionError):
                    return False
                ra = wa.request({"cmd": "c10_ref_src", "src": s, "mkeys": [mk]})[mk]
                rb = wb.request({"cmd": "c10_ref_src", "src": s, "mkeys": [mk]})[mk]
                return (ra.get("sha"), ra.get("exc")) != (rb.get("sha"), rb.get("exc"))

            lines = src.split("\n")
            if len(lines) <= 160:
                lines = ddmin(lines, differs, max_tests=250)
            msrc = "\n".join(lines)
            sig = "O2/environment-dependent-output"
            doc = {"property": PROP, "kind": "envdep", "exe": exe, "hashseeds": [ha, hb],
                   "pads": [fleet.specs[a][2], fleet.specs[b][2]], "opts": [fleet.specs[a][3], fleet.specs[b][3]],
                   "src": msrc, "mkey": mk,
                   "origin_prog": pid, "signature": sig,
                   "what": "same source and options give different normalised text in two fresh processes that differ only in PYTHONHASHSEED / heap layout / -O",
                   "replay": "./check C10 --replay <this file>"}
            vr = verify_replay(repo, doc)
            if not vr["reproduced"]:
                # The templates used for detection have aged (their caches moved the heap), which
                # matters when the dependence is on object addresses.  Search fresh interpreters
                # (ASLR off, so each is exactly repeatable) for a pair that differs.
                found = None
                for cand_src in (msrc, src):
                    outs = []
                    for hsx, padx in [(ha, fleet.specs[a][2]), (hb, fleet.specs[b][2]), (ha, 0), (hb, 1), (ha, 7), (hb, 64),
                                      (ha, 333), (hb, 1500), (ha, 2), (hb, 3), (ha, 900), (hb, 2500)]:
                        with fresh_worker(repo, exe, hsx, padx, 0) as fl:
                            r = fl.groups[0][0].request({"cmd": "c10_ref_src", "src": cand_src, "mkeys": [mk]})[mk]
                        key = (r.get("sha"), json.dumps(r.get("exc")))
                        for okey, ohs, opad in outs:
                            if okey != key:
                                found = (cand_src, [ohs, hsx], [opad, padx])
                                break
                        if found:
                            break
                        outs.append((key, hsx, padx))
                    if found:
                        break
                if not found:
                    raise HarnessError("environment dependence seen on long-lived templates for %s did not reproduce in "
                                       "fresh interpreters" % pid)
                doc["src"], doc["hashseeds"], doc["pads"] = found
                doc["opts"] = [0, 0]
                vr = verify_replay(repo, doc)
                if not vr["reproduced"]:
                    raise HarnessError("O2 replay in fresh interpreters did not reproduce for %s" % pid)
            doc["outputs"] = [o.get("text") or o.get("exc") for o in vr["outs"]]
            if sig in seen_sig:
                continue
            seen_sig.add(sig)
            violations.append((doc, sig))

        # ---- phase floor: all histories <= 3 over the reduced alphabet -------------------
        lp = fleet.groups[0][0].request({"cmd": "c10_lp", "pid": FLOOR_PROGS[0], "src": pool[FLOOR_PROGS[0]], "model": {}})
        fh = floor_histories(max(1, lp["lines"] // 2), P["floor_len"])
        fjobs = []
        for i in range(0, len(fh), BATCH * 4):
            g = groups12[(i // (BATCH * 4)) % len(groups12)]
            fjobs.append((g, {"cmd": "c10_histories", "ops_list": fh[i:i + BATCH * 4]}))
        fres = fleet.run(fjobs)
        floor_fail = []
        floor_runs = 0
        for (g, req), r in zip(fjobs, fres):
            floor_runs += r["runs"]
            for f in r["failures"]:
                floor_fail.append((g, f))
            _merge(cov, r, states, transitions, desc_digests)
        cov["phases"]["floor"] = {"histories": floor_runs, "exhaustive_up_to_length": P["floor_len"],
                                  "alphabet": "2 objects; 6 legal sets + 1 redundant set per object; 1 illegal set; reseed; "
                                              "mid-conversion abort; failing conversion; 3 programs x {o1,o2,none}",
                                  "failures": len(floor_fail)}
        cov["evaluations"] += floor_runs
        log("floor: %d histories, %d failing" % (floor_runs, len(floor_fail)))

        # ---- copies of option objects: set on the original, copy (shallow / deep), set on the copy (or on
        # the original), convert with the other one: the two must be independent
        copy_hist = []
        for shallow in (True, False, "pickle"):
            for n1 in OPTION_NAMES:
                for n2 in OPTION_NAMES:
                    for who_set, who_conv in (("c1", "o1"), ("o1", "c1")):
                        copy_hist.append([{"op": "new", "id": "o1"}, {"op": "set", "obj": "o1", "name": n1, "value": OPTION_SPACE[n1][1]},
                                          ({"op": "copy", "id": "c1", "src": "o1", "shallow": False, "pickle": 5} if shallow == "pickle"
                                           else {"op": "copy", "id": "c1", "src": "o1", "shallow": shallow}),
                                          {"op": "set", "obj": who_set, "name": n2, "value": OPTION_SPACE[n2][1 if n2 != n1 else 0]},
                                          {"op": "conv", "prog": "short:sentinel", "obj": who_conv}, {"op": "conv", "prog": "short:sentinel", "obj": who_set}])
        # ---- option values that are equal to a legal value but another string object (built at run time)
        for n1 in OPTION_NAMES:
            for v1 in OPTION_SPACE[n1]:
                for n2 in [None] + [n for n in OPTION_NAMES if n != n1]:
                    h = [{"op": "new", "id": "o1"}, {"op": "set", "obj": "o1", "name": n1, "value": v1, "fresh": True}]
                    if n2:
                        h.append({"op": "set", "obj": "o1", "name": n2, "value": OPTION_SPACE[n2][1], "fresh": True})
                    h += [{"op": "conv", "prog": "short:sentinel", "obj": "o1"}, {"op": "conv", "prog": "short:if_chain", "obj": "o1"}]
                    copy_hist.append(h)
        # ---- a real file name passed as filename=, then a same-length variant of its contents under the
        # same name (nothing about the file on disk is an input of a conversion)
        pdir = os.path.join(os.path.dirname(os.path.dirname(os.path.abspath(__file__))), "pool")
        import random as _rnd

        for key in sorted(pool):
            if not key.startswith("file:"):
                continue
            path = os.path.join(pdir, key[5:] + ".py")
            if not os.path.exists(path):
                continue
            v = pool[key]
            for attempt in range(6):
                v = progs.variant_of(pool[key], _rnd.Random(derive_seed(seed, "fnvar", key, attempt)))
                if v != pool[key] and len(v.encode()) == len(pool[key].encode()):
                    break
            if v != pool[key] and len(v.encode()) == len(pool[key].encode()):
                copy_hist.append([{"op": "conv", "prog": key, "obj": None, "filename": path}, {"op": "conv", "src": v, "obj": None, "filename": path}])
                copy_hist.append([{"op": "conv", "src": v, "obj": None, "filename": path}, {"op": "conv", "prog": key, "obj": None, "filename": path}])
        # ---- stack head-room ladder (a fault kind: the caller leaves N frames less stack).  From every
        # rung the conversion either returns the reference text or raises RecursionError - never another
        # text - and the conversions after a natural stack exhaustion are unaffected by it.
        ladder_progs = [k for k in ("big:many_statements_260", "big:deep_nesting", "big:many_functions", "file:t_class", "file:t_function_decl",
                                    "short:nested_loops", "short:many_returns", "file:t_comprehension") if k in pool]
        if not ladder_progs:
            ladder_progs = sorted(pool)[:4]
        rungs = list(range(300, 985, 15 if P.get("triples") else 45))
        for key in ladder_progs:
            for unp in OPTION_SPACE["unparser"]:
                for d in rungs:
                    copy_hist.append([{"op": "new", "id": "o1"}, {"op": "set", "obj": "o1", "name": "unparser", "value": unp},
                                      {"op": "conv", "prog": key, "obj": "o1", "depth": d},
                                      {"op": "conv", "prog": key, "obj": "o1"}, {"op": "conv", "prog": "short:sentinel", "obj": None}])
        cjobs = [(groups12[i % len(groups12)], {"cmd": "c10_histories", "ops_list": copy_hist[i::len(groups12)]}) for i in range(len(groups12))]
        copy_fail = []
        for (g, req), r in zip(cjobs, fleet.run(cjobs)):
            for f in r["failures"]:
                copy_fail.append((g, f))
            _merge(cov, r, states, transitions, desc_digests)
        cov["phases"]["copies_real_filenames_stack_ladder"] = {"histories": len(copy_hist), "failures": len(copy_fail)}
        cov["evaluations"] += len(copy_hist)
        log("copies / real file names / stack head-room ladder: %d histories, %d failing" % (len(copy_hist), len(copy_fail)))

        # ---- phase option-object floor: ONE object, all sequences <= 5 of {6 sets, 2 conversions} ------
        # (a snapshot of the options taken at first use, refreshed only under some condition, an
        # option changed and changed back, the same value set twice ...)
        oo_acts = [{"op": "set", "obj": "o1", "name": n, "value": v} for n in OPTION_NAMES for v in OPTION_SPACE[n]]
        oo_convs = [{"op": "conv", "prog": "short:sentinel", "obj": "o1"}, {"op": "conv", "prog": "short:if_chain", "obj": "o1"}]
        oo_all = oo_acts + oo_convs
        oo_hist = []

        def _oo(prefix, depth):
            for last in oo_convs:
                oo_hist.append([{"op": "new", "id": "o1"}] + prefix + [last])
            if depth < P["oo_len"] - 1:
                for a in oo_all:
                    _oo(prefix + [a], depth + 1)

        _oo([], 0)
        ojobs = [(groups12[(i // 600) % len(groups12)], {"cmd": "c10_histories", "ops_list": oo_hist[i:i + 600]})
                 for i in range(0, len(oo_hist), 600)]
        oo_fail = []
        for (g, req), r in zip(ojobs, fleet.run(ojobs)):
            for f in r["failures"]:
                oo_fail.append((g, f))
            _merge(cov, r, states, transitions, desc_digests)
        cov["phases"]["option_object_floor"] = {"histories": len(oo_hist), "exhaustive_up_to_length": P["oo_len"],
                                                "alphabet": "one object; set(name, value) for 3 names x 2 values; convert(sentinel|if_chain) with it",
                                                "failures": len(oo_fail)}
        cov["evaluations"] += len(oo_hist)
        log("option-object floor: %d histories, %d failing" % (len(oo_hist), len(oo_fail)))

        # ---- phase crash-point enumeration -----------------------------------------------
        ce_jobs = []
        ce_total = 0
        for pi, pid in enumerate(P["crash_enum"]):
            info = fleet.groups[0][0].request({"cmd": "c10_lp", "pid": pid, "src": pool[pid], "model": {}})
            L = info["lines"]
            hist = []
            for k in range(1, L + 1):
                exc = ("SimAbort", "KeyboardInterrupt", "MemoryError")[k % 3]
                hist.append([
                    {"op": "abort_conv", "prog": pid, "obj": None, "mode": "line", "k": k, "exc": exc},
                    {"op": "conv", "prog": pid, "obj": None},
                    {"op": "conv", "prog": progs.SENTINEL, "obj": None},
                ])
            ce_total += len(hist)
            for i in range(0, len(hist), BATCH * 4):
                g = groups12[(pi + i // (BATCH * 4)) % len(groups12)]
                ce_jobs.append((g, {"cmd": "c10_histories", "ops_list": hist[i:i + BATCH * 4]}))
        ce_res = fleet.run(ce_jobs)
        ce_fail = []
        for (g, req), r in zip(ce_jobs, ce_res):
            for f in r["failures"]:
                ce_fail.append((g, f))
            _merge(cov, r, states, transitions, desc_digests)
        cov["phases"]["crash_point_enumeration"] = {"programs": P["crash_enum"], "histories": ce_total,
                                                    "exhaustive_over": "every traced line event k of the fault-free call",
                                                    "failures": len(ce_fail)}
        cov["evaluations"] += ce_total
        log("crash-point enumeration: %d histories, %d failing" % (ce_total, len(ce_fail)))

        # ---- phase program pairs: conv(A) then conv(B), for every ordered pair of pool programs -------
        # State keyed by something two DIFFERENT programs can share (an identifier, a (name, line)
        # pair, a character, a node position) only shows for a specific pair in a specific order.
        from . import c10 as _c10

        A_keys = _c10.OK_KEYS + _c10.FAIL_KEYS
        # failing programs are observers too (a leak can make a program convertible that is not
        # convertible in a fresh process), except the 2 000-statement one (slow)
        B_keys = _c10.OK_KEYS + [k for k in _c10.FAIL_KEYS if k != "fail:fail_big"]
        pair_models = [None] + [dict(m) for m in P["pair_models"]]
        pair_hist = []
        for m in pair_models:
            pre = []
            oid = None
            if m is not None:
                oid = "o1"
                pre = [{"op": "new", "id": "o1"}] + [{"op": "set", "obj": "o1", "name": n, "value": m[n]} for n in OPTION_NAMES if n in m]
            for a in A_keys:
                for b in B_keys:
                    if a == b:
                        continue
                    if m is not None and P.get("pair_models_short_only") and not (
                            a.startswith(("short:", "fail:")) and b.startswith(("short:", "fail:"))):
                        continue
                    pair_hist.append(pre + [{"op": "conv", "prog": a, "obj": oid}, {"op": "conv", "prog": b, "obj": oid}])
        # caller-made changes of process state before a conversion (recursion limit raised after the
        # import, other cwd, other argv): [env; conv(p)] for every pool program; the monitors compare
        # the process state after the conversion with what the caller had set
        env_ops = [{"op": "env", "what": "recursionlimit", "value": 5000}, {"op": "env", "what": "recursionlimit", "value": 3000},
                   {"op": "env", "what": "clock", "value": 40 * 86400.0}, {"op": "env", "what": "stdout", "value": "ascii"}, {"op": "env", "what": "gc", "value": "disable"},
                   {"op": "env", "what": "gc", "value": [1, 1, 1]}, {"op": "env", "what": "pid", "value": 77777},
                   {"op": "env", "what": "chdir", "value": "/usr"}, {"op": "env", "what": "argv", "value": ["oneliner", "-Cunparser=oneliner", "x.py"]}]
        n_env = 0
        nd_model = {"unparser": "oneliner", "expr_wrapper": "list", "if_style": "short_circuit"}
        nd_pre = [{"op": "new", "id": "o1"}] + [{"op": "set", "obj": "o1", "name": n, "value": nd_model[n]} for n in OPTION_NAMES]
        for e in env_ops:
            for a in A_keys:
                if a == "fail:fail_big" and e["what"] != "recursionlimit":
                    continue
                pair_hist.append([e, {"op": "conv", "prog": a, "obj": None}])
                n_env += 1
                if a.startswith("short:"):
                    # ... and with the all-non-default options (the custom unparser, the list wrapper)
                    pair_hist.append(nd_pre + [e, {"op": "conv", "prog": a, "obj": "o1"}])
                    n_env += 1
        # the older host (thorough tier): ordered pairs with no options on one 3.11 template as well
        pair_hist_311 = []
        if len(all_groups) > n12:
            for a in A_keys:
                for b in B_keys:
                    if a != b and a.startswith(("short:", "fail:")) and b.startswith(("short:", "fail:")):
                        pair_hist_311.append([{"op": "conv", "prog": a, "obj": None}, {"op": "conv", "prog": b, "obj": None}])
        # (p, p minus one top-level statement), both orders: the two programs share every other
        # definition verbatim
        n_del = 0
        for a in A_keys:
            if a.startswith(("fail:", "big:")):
                continue
            for v in progs.deletion_variants(pool[a], P.get("del_variants", 6)):
                pair_hist.append([{"op": "conv", "prog": a, "obj": None}, {"op": "conv", "src": v, "obj": None}])
                pair_hist.append([{"op": "conv", "src": v, "obj": None}, {"op": "conv", "prog": a, "obj": None}])
                n_del += 2
        pjobs = []
        CH = 150
        for i in range(0, len(pair_hist), CH):
            pjobs.append((groups12[(i // CH) % len(groups12)], {"cmd": "c10_histories", "ops_list": pair_hist[i:i + CH]}))
        g311 = all_groups[n12:]
        for i in range(0, len(pair_hist_311), CH):
            pjobs.append((g311[(i // CH) % len(g311)], {"cmd": "c10_histories", "ops_list": pair_hist_311[i:i + CH]}))
        pair_fail = []
        for (g, req), r in zip(pjobs, fleet.run(pjobs)):
            for f in r["failures"]:
                pair_fail.append((g, f))
            _merge(cov, r, states, transitions, desc_digests)
        cov["phases"]["program_pairs"] = {"histories": len(pair_hist) + len(pair_hist_311), "of_which_env_then_conv": n_env, "of_which_statement_deletion_pairs": n_del,
                                          "of_which_on_python_3_11": len(pair_hist_311), "ordered_pairs": len(A_keys) * len(B_keys) - len(B_keys),
                                          "option_models": ["none"] + ["|".join(m.get(n, "-") for n in OPTION_NAMES) for m in P["pair_models"]],
                                          "exhaustive_over": "all ordered pairs (A, B), A in pool incl. failing programs, B in pool",
                                          "failures": len(pair_fail)}
        cov["evaluations"] += len(pair_hist) + len(pair_hist_311)
        log("program pairs: %d histories (%d on 3.11), %d failing" % (len(pair_hist) + len(pair_hist_311), len(pair_hist_311), len(pair_fail)))

        # ---- phase program triples (thorough): conv(A); conv(B); conv(C) over the short programs --------
        triple_fail = []
        if P.get("triples"):
            T_keys = [k for k in _c10.OK_KEYS if k.startswith("short:")] + _c10.FAIL_KEYS
            C_keys = [k for k in _c10.OK_KEYS if k.startswith("short:")]
            tjobs = []
            n_tr = 0
            gi = 0
            for a in T_keys:
                chunk = []
                for b in T_keys:
                    for c in C_keys:
                        if a != b and b != c:
                            chunk.append([{"op": "conv", "prog": a, "obj": None}, {"op": "conv", "prog": b, "obj": None},
                                          {"op": "conv", "prog": c, "obj": None}])
                n_tr += len(chunk)
                for i in range(0, len(chunk), 400):
                    tjobs.append((groups12[gi % len(groups12)], {"cmd": "c10_histories", "ops_list": chunk[i:i + 400]}))
                    gi += 1
            for (g, req), r in zip(tjobs, fleet.run(tjobs)):
                for f in r["failures"]:
                    triple_fail.append((g, f))
                _merge(cov, r, states, transitions, desc_digests)
            cov["phases"]["program_triples"] = {"histories": n_tr, "exhaustive_over": "all ordered triples of the short pool programs "
                                                "(first two also over failing programs), no options", "failures": len(triple_fail)}
            cov["evaluations"] += n_tr
            log("program triples: %d histories, %d failing" % (n_tr, len(triple_fail)))

        # ---- phase collision hunt --------------------------------------------------------------
        # One output with thousands of temporaries of the same template, under many reseed values:
        # two temporaries sharing a name (entropy loss in the fresh-name machinery) changes the
        # normal form.  With the 26**10 name space of the pinned tree the chance is ~1e-7 per run.
        n_sw = P["hunt_stmts"]
        swap_src = "a, b = 1, 2\n" + "a, b = b, a\n" * n_sw
        hunt_hist = []
        for i in range(P["hunt_runs"]):
            hs_i = derive_seed(seed, "hunt", i) % (1 << 31)
            warm = [{"op": "conv", "prog": "short:multi_destructure", "obj": None}] * (i % 3)
            hunt_hist.append([{"op": "new", "id": "o1"}, {"op": "set", "obj": "o1", "name": "expr_wrapper", "value": "list"},
                              {"op": "set", "obj": "o1", "name": "unparser", "value": "oneliner"}] + warm +
                             [{"op": "reseed", "n": hs_i}, {"op": "conv", "src": swap_src, "obj": "o1"}])
        hjobs = [(groups12[i % len(groups12)], {"cmd": "c10_histories", "ops_list": hunt_hist[i:i + 2]})
                 for i in range(0, len(hunt_hist), 2)]
        hunt_fail = []
        for (g, req), r in zip(hjobs, fleet.run(hjobs)):
            for f in r["failures"]:
                hunt_fail.append((g, f))
            _merge(cov, r, states, transitions, desc_digests)
        cov["phases"]["collision_hunt"] = {"histories": len(hunt_hist), "temporaries_per_output": n_sw + 1,
                                           "failures": len(hunt_fail)}
        cov["evaluations"] += len(hunt_hist)
        log("collision hunt: %d conversions with %d temporaries each, %d failing" % (len(hunt_hist), n_sw + 1, len(hunt_fail)))

        # ---- phase seeded histories ------------------------------------------------------
        n_hist = P["histories"]
        seeds = [derive_seed(seed, PROP, i) for i in range(n_hist)]
        sjobs = []
        knobs = {"max_len": P["max_len"]}
        for bi, i in enumerate(range(0, n_hist, BATCH)):
            g = all_groups[bi % len(all_groups)]
            sjobs.append((g, {"cmd": "c10_batch", "seeds": seeds[i:i + BATCH], "knobs": knobs,
                              "n_samples": 1 if bi < 4 else 0,
                              "want_digests": bi < (P["determinism_pairs"] + BATCH - 1) // BATCH}))
        sres = fleet.run(sjobs)
        seeded_fail = []
        first_digests = {}
        first_logs = {}
        for (g, req), r in zip(sjobs, sres):
            for f in r["failures"]:
                seeded_fail.append((g, f))
            _merge(cov, r, states, transitions, desc_digests)
            first_digests.update({(g, k): v for k, v in r["digests"].items()})
            first_logs.update({(g, k): v for k, v in (r.get("logs") or {}).items()})
            samples.extend(r["samples"])
        cov["phases"]["seeded"] = {"histories": n_hist, "failures": len(seeded_fail), "max_len": P["max_len"]}
        cov["evaluations"] += n_hist
        log("seeded: %d histories, %d failing" % (n_hist, len(seeded_fail)))

        # ---- determinism self-check (same seeds again, other replica / same template) --------
        djobs = []
        nd = (P["determinism_pairs"] + BATCH - 1) // BATCH
        for bi in range(min(nd, len(sjobs))):
            g, req = sjobs[bi]
            djobs.append((g, dict(req, want_digests=True, n_samples=0)))
        # reverse order so a different replica of the group tends to serve them
        dres = fleet.run(list(reversed(djobs)))
        mism = 0
        pairs = 0
        for (g, req), r in zip(reversed(djobs), dres):
            for k, v in r["digests"].items():
                pairs += 1
                if first_digests.get((g, k)) != v:
                    mism += 1
                    a, b = first_logs.get((g, k)) or {}, (r.get("logs") or {}).get(k) or {}
                    where = "descriptor" if a.get("ops") != b.get("ops") else "event log"
                    detail = ""
                    if where == "event log":
                        for i, (ea, eb) in enumerate(zip(a.get("events", []), b.get("events", []))):
                            if ea != eb:
                                detail = "event %d: %s  VS  %s" % (i, json.dumps(ea, sort_keys=True)[:400], json.dumps(eb, sort_keys=True)[:400])
                                break
                    else:
                        for i, (oa, ob) in enumerate(zip(a.get("ops", []), b.get("ops", []))):
                            if oa != ob:
                                detail = "op %d: %s  VS  %s" % (i, json.dumps(oa, sort_keys=True)[:300], json.dumps(ob, sort_keys=True)[:300])
                                break
                    eprint("DETERMINISM-MISMATCH seed=%s template-group=%d differs in the %s; %s" % (k, g, where, detail))
        cov["determinism_selfcheck"] = {"pairs_compared": pairs, "mismatches": mism}
        determinism_mismatch = mism
        log("determinism self-check: %d pairs, %d mismatches" % (pairs, mism))

        # ---- shrink + replay-verify failures ---------------------------------------------
        all_fail = floor_fail + copy_fail + oo_fail + ce_fail + pair_fail + triple_fail + hunt_fail + seeded_fail
        unreproducible = []
        by_class = {}
        for g, f in all_fail:
            for v in f["violations"]:
                by_class.setdefault(_viol_class(v), []).append((len(f["desc"]["ops"]), g, f))
        for vclass in sorted(by_class):
            cands = sorted(by_class[vclass], key=lambda t: (t[0], t[1], digest(t[2]["desc"])))
            done_sigs = set()
            for n_ops, g, f in cands[:6]:
                sh = Shrinker(fleet, g, vclass)
                ops = f["desc"]["ops"]
                if not sh.fails(ops):
                    unreproducible.append("%s/%s did not reproduce on the same (older) template" % vclass)
                    continue
                ops = sh.shrink(ops)
                sig = signature_of(ops, vclass)
                if sig in done_sigs or sig in seen_sig:
                    continue
                done_sigs.add(sig)
                seen_sig.add(sig)
                desc = {"prop": PROP, "seed": f.get("seed", 0), "ops": ops, "extend": True}
                w = fleet.groups[g][0]
                r = w.request({"cmd": "c10_check", "desc": desc, "events": True})
                doc = {"property": PROP, "kind": "history", "template": fleet.group_ident(g), "desc": desc,
                       "violation_class": list(vclass), "violations": r["violations"], "digest": r["digest"],
                       "signature": sig, "origin_seed": f.get("seed"), "shrink_tests": sh.tests,
                       "events": r["result"]["events"], "replay": "./check C10 --replay <this file>"}
                vr = verify_replay(repo, doc)
                if not (vr["reproduced"] and vr["same_digest"]):
                    # seen on a long-lived template but not in a brand-new interpreter: the outcome
                    # depends on the age of the process (object addresses).  Never reported as a
                    # violation by itself; if nothing reproducible is found the run is a harness error.
                    unreproducible.append("%s (classes=%s same_digest=%s)" % (sig, vr["classes"], vr["same_digest"]))
                    done_sigs.discard(sig)
                    seen_sig.discard(sig)
                    continue
                violations.append((doc, sig))
                if len(done_sigs) >= 3:
                    break

    if determinism_mismatch and not violations:
        raise HarnessError("determinism self-check: %d repeated runs produced a different event log and no reproducible "
                           "violation explains it" % determinism_mismatch)
    if determinism_mismatch:
        eprint("NOTE property=C10 %d repeated runs differed between identical templates of different age; the reported "
               "violation(s) were each reproduced in a brand-new interpreter" % determinism_mismatch)
    if unreproducible:
        if not violations:
            raise HarnessError("failures seen on long-lived templates did not reproduce in a fresh interpreter: %s" % unreproducible[:3])
        for u in unreproducible[:5]:
            eprint("NOTE property=C10 failure not reproducible in a fresh interpreter (process-age dependent), not reported: %s" % u)

    # ---- report ------------------------------------------------------------------------------
    rc = 0
    n_viol = 0
    for doc, sig in violations:
        known = match_known(PROP, sig)
        if known:
            print("KNOWN-FINDING: property=%s %s" % (PROP, known.get("what", sig)))
            continue
        n_viol += 1
        path = write_replay(PROP, "%s-%s" % (seed, digest(doc.get("desc") or doc.get("src"))[:10]), doc, replay_dir)
        print("VIOLATION property=%s replay=%s" % (PROP, path))
        eprint("  signature: %s" % sig)
        rc = 1
    wall = T.s()
    cov["distinct_nontrivial"] = len(desc_digests)
    cov["rule"] = ("cases = histories of API actions executed in a forked child of a pristine template (systematic floor of all "
                   "histories <= 3 over a reduced alphabet, exhaustive crash-point enumeration for selected programs, then "
                   "seeded swarm histories up to length %d) plus reference-table entries compared across hash seeds; a history "
                   "is non-trivial when it has >= 2 actions and >= 1 conversion checked against the reference model; distinct = "
                   "distinct digest of the op list" % P["max_len"])
    cov["samples"] = samples[:4]
    cov["distinct_states"] = len(states)
    cov["distinct_transitions"] = len(transitions)
    cov["state_measure"] = "abstract state = (sorted option models of live objects, digest of shared library objects, PRNG class)"
    cov["runs_per_hour"] = int(cov["evaluations"] / max(wall, 1e-6) * 3600)
    cov["seeds_per_hour"] = int(P["histories"] / max(wall, 1e-6) * 3600)
    cov["simulated_time"] = "not applicable: the system has no clock or timer; logical steps are reported instead"
    cov["logical_steps"] = {"traced_line_events_in_abort_ops": cov.pop("_lines", 0), "api_actions": cov.pop("_ops", 0),
                            "conversions_checked_against_reference": cov.pop("_convs", 0)}
    cov["templates"] = [{"exe": e, "hashseed": h, "heap_pad": p, "python_flags": " ".join(__import__("sim.coord", fromlist=["PYFLAGS"]).PYFLAGS.get(o, []))} for e, h, p, o in specs]
    cov["real_vs_stub"] = {"real": ["whole oneliner package", "CPython ast/symtable/random"],
                           "simulated": ["order of API calls", "global PRNG state", "PYTHONHASHSEED", "abort instants"],
                           "stubbed": []}
    cov["violations_reported"] = [sig for _, sig in violations]
    if write_ev:
        write_evidence(PROP, tier, seed, "exploration", cov, wall, n_viol, [
            "reference model = the same working tree, first and only call of a fresh forked process",
            "aborts are placed at Python line boundaries inside oneliner/, ast.py and random.py only",
            "hosts available: CPython 3.12.1 (quick+thorough) and 3.11.2 (thorough)",
        ])
    log("done rc=%d violations=%d wall=%.1fs evaluations=%d" % (rc, n_viol, wall, cov["evaluations"]))
    return rc


def _merge(cov, r, states, transitions, desc_digests):
    for k, v in r["probes"].items():
        cov["probes"][k] = cov["probes"].get(k, 0) + v
    for k, v in r["faults"].items():
        cov["faults_fired"][k] = cov["faults_fired"].get(k, 0) + v
    for k, v in r["sites"].items():
        cov["abort_sites"][k] = cov["abort_sites"].get(k, 0) + v
    states.update(r["states"])
    transitions.update(r["transitions"])
    desc_digests.update(r["desc_digests"])
    cov["_lines"] = cov.get("_lines", 0) + r["lines"]
    cov["_ops"] = cov.get("_ops", 0) + r["ops"]
    cov["_convs"] = cov.get("_convs", 0) + r["convs_checked"]


def replay(repo: str, path: str) -> int:
    with open(path, encoding="utf-8") as f:
        doc = json.load(f)
    vr = verify_replay(repo, doc)
    if doc.get("kind", "history") == "history":
        for i, (op, ev) in enumerate(zip(doc["desc"]["ops"], (vr.get("result") or {}).get("events", []))):
            o = dict(op)
            if "src" in o:
                o["src"] = o["src"][:80]
            eprint("  %2d %s -> %s" % (i, json.dumps(o, sort_keys=True), json.dumps({k: ev.get(k) for k in ("out", "exc", "sha", "fired", "site", "mon") if ev.get(k) is not None}, sort_keys=True)))
        for v in vr["violations"]:
            eprint("  violation: %s" % json.dumps(v, sort_keys=True))
    else:
        for hs, o in zip(doc["hashseeds"], vr["outs"]):
            eprint("  PYTHONHASHSEED=%s -> %s" % (hs, (o.get("text") or str(o.get("exc")))[:600]))
    if vr["reproduced"]:
        print("VIOLATION property=%s replay=%s" % (PROP, path))
        return 1
    print("replay did not reproduce (property holds on this tree for this replay)")
    return 0
