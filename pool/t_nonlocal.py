# type: ignore

b = 123


def func():
    a = 666

    def func3():
        def func4():
            print(a)
            print(b)

        func4()

    def func2():
        nonlocal a
        a = 1

    func3()
    func2()
    print(a)


func()


def func():
    d = 0

    class Foo:
        nonlocal d
        d = 12345

    foo = Foo()
    print(d)
    print(hasattr(foo, "d"))


func()


def func():
    d = 0

    class Foo:
        nonlocal d
        d = 12345

    class Foo2:
        print(d)


func()


def func():
    d = 0

    class Foo:
        d = 12345

        def meth(self):
            nonlocal d
            d = 54321

    foo = Foo()
    foo.meth()
    print(d)
    print(foo.d)


func()


def func():
    d = 0

    class Foo:
        d = 12345

        def meth(self):
            print(d)

    class Foo2:
        d = 23333

        class Foo3:
            nonlocal d
            d = 54321

        print(d)

    foo = Foo()
    foo.meth()
    print(foo.d)


func()


def func():
    a = 0

    # test function and lambda in one line
    def func2(arg=lambda a: None):
        nonlocal a
        a = 1

    func2()
    print(a)


func()


def func(arg):
    print(arg)

    def func2():
        nonlocal arg
        arg = 4

    func2()
    print(arg)


func(0)


def func(arg):
    class Foo:
        def meth(self):
            print(arg)

    def func2():
        nonlocal arg
        arg = 2

    Foo().meth()
    func2()
    Foo().meth()


func(0)
