for i in range(10):
    if i > 5:
        break
    print(i)
