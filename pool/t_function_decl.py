def func(
    a: int,
    b: int = 1,
    /,
    c: int = 2,
    *args: list[int],
    d: int,
    e: int = 3,
    **kwargs: dict[str, int],
):
    print(a, b, c, d, e)
    print(args)
    print(kwargs)


func(0, 1, 2, 3, 4, 5, 6, 7, 8, d=9, kw1=0, kw2=1)
