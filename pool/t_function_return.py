# type: ignore
print("=== Return None by default 1 ===")


def func():
    pass


print(func())

print("=== Return None by default 2 ===")


def func():
    return


print(func())


print("=== Return directly ===")


def func():
    return 34567


print(func())

print("=== Return from If ===")


def func(a, b):
    if a:
        return 12345
    if b:
        return 34567
    if 1:
        print("hello")
        return 114514


for a, b in [(0, 0), (1, 0), (0, 1), (1, 1)]:
    print(func(a, b))

print("=== Return from If-Else ===")


def func(a, b):
    if a:
        pass
    else:
        return 12345
    if b:
        pass
    else:
        return 34567
    print("hello")


for a, b in [(0, 0), (1, 0), (0, 1), (1, 1)]:
    print(func(a, b))

print("=== Return from For loop ===")


def func():
    for _ in range(10):
        for __ in range(10):
            return 34567
        print("this should never print")


print(func())

print("=== Return from For-Else ===")


def func():
    for _ in []:
        pass
    else:
        return 34567


print(func())

print("=== Return from While loop ===")


def func():
    while 1:
        while 1:
            return 34567
        print("this should never print")


print(func())

print("=== Return from While-Else ===")


def func():
    while 0:
        pass
    else:
        return 34567


print(func())
