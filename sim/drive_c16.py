"""Driver for the C16 check: systematic + seeded base cases, exhaustive single-fault
enumeration per base case, cross-validation against real processes, shrinking, replay."""
from __future__ import annotations

import json
import os
import shutil
import subprocess
import tempfile

from . import c16
from .coord import PY312, PYFLAGS, Fleet, default_jobs, eprint, fresh_worker, hashseeds_for
from .core import (OPTION_NAMES, HarnessError, Timer, all_option_sets, ddmin, derive_seed, digest, match_known, normalise,
                   write_evidence, write_replay)
from .simfs import CWD

PROP = "C16"
BATCH = 12


def tier_params(tier: str) -> dict:
    if tier == "thorough":
        return dict(bases=int(os.environ.get("VERIF_C16_BASES", 40000)), real=200, strace=40, determinism_pairs=200,
                    systematic_faults=True, multi=6)
    return dict(bases=int(os.environ.get("VERIF_C16_BASES", 1800)), real=24, strace=6, determinism_pairs=36,
                systematic_faults=False, multi=3)


# ---------------------------------------------------------------------------------------------
# systematic base cases: every pool program x every option set x {file, stdout}
# ---------------------------------------------------------------------------------------------


def systematic_bases() -> list:
    out = []
    models = [{}] + all_option_sets()
    for prog in sorted(c16.CLI_POOL):
        for mi, model in enumerate(models):
            for mode in ("file", "stdout"):
                parts = [{"kind": "in", "argv": ["in.py"]}]
                for n in OPTION_NAMES:
                    if n in model:
                        it = {"cls": "valid", "name": n, "value": model[n]}
                        parts.append({"kind": "item", "item": it, "argv": ["-C%s=%s" % (n, model[n])]})
                if mode == "file":
                    parts.append({"kind": "out", "argv": ["-o", "out.txt"]})
                variant = c16.VARIANT_KINDS[(mi + len(prog)) % len(c16.VARIANT_KINDS)]
                files = {"in.py": c16.make_input_bytes(prog, variant).hex(), "other.txt": b"do not touch\n".hex()}
                out.append({
                    "prop": PROP, "seed": 0, "parts": parts, "out_mode": mode, "in_path": "in.py",
                    "out_path": "out.txt" if mode == "file" else None, "in_state": "present",
                    "out_state": "absent" if mode == "file" else "n/a", "prog": prog, "variant": variant, "special": None,
                    "fs": {"files": files, "dirs": [], "ro": [], "unreadable": []},
                    "roles": {"in.py": "IN", "out.txt": "OUT"} if mode == "file" else {"in.py": "IN"},
                    "knobs": {"buffer_size": 8192, "stdout_buffer": 8192, "stdout_line_buffered": False, "locale": "utf-8",
                              "stdout_encoding": "utf-8"},
                    "plan": [],
                })
    # every special input (BOM, cookies, surrogates, unicode line separators, block boundaries, ...)
    # under every option set, to a file
    for name in sorted(c16.SPECIAL_INPUTS):
        for mi, model in enumerate(models):
            parts = [{"kind": "in", "argv": ["in.py"]}]
            for n in OPTION_NAMES:
                if n in model:
                    parts.append({"kind": "item", "item": {"cls": "valid", "name": n, "value": model[n]}, "argv": ["-C%s=%s" % (n, model[n])]})
            parts.append({"kind": "out", "argv": ["-o", "out.txt"]})
            out.append({
                "prop": PROP, "seed": 0, "parts": parts, "out_mode": "file", "in_path": "in.py", "out_path": "out.txt",
                "in_state": "present", "out_state": "absent", "prog": None, "variant": None, "special": name,
                "fs": {"files": {"in.py": c16.SPECIAL_INPUTS[name].hex(), "other.txt": b"do not touch\n".hex()}, "dirs": [], "ro": [], "unreadable": []},
                "roles": {"in.py": "IN", "out.txt": "OUT"},
                "knobs": {"buffer_size": 8192, "stdout_buffer": 8192, "stdout_line_buffered": False, "locale": "utf-8", "stdout_encoding": "utf-8"},
                "plan": [],
            })
    return out


# ---------------------------------------------------------------------------------------------
# real processes
# ---------------------------------------------------------------------------------------------


def real_runnable(desc: dict) -> bool:
    fsd = desc["fs"]
    if fsd.get("ro") or fsd.get("unreadable"):
        return False  # we run as root: permission bits are not enforced on the real file system
    if fsd.get("fifos"):
        return False  # a real FIFO needs a concurrent writer
    if any((CWD + "/") in a for a in desc.get("argv", [])) or any(k.startswith("/") for k in fsd["files"]):
        return False  # absolute paths of the simulated tree do not exist for real
    if fsd.get("links"):
        return False  # listing comparison does not model links (the simulated semantics follow POSIX)
    if desc["knobs"].get("locale") != "utf-8":
        return False  # the real environment's locale is UTF-8
    if desc.get("plan"):
        return False
    return True


def run_real(repo: str, desc: dict, strace: dict | None = None, opt: int = 0) -> dict:
    """Execute the base case as a real `python -m oneliner` process on real files (`opt`: index of the
    interpreter flags of the template the simulated run was made on, e.g. -O)."""
    root = tempfile.mkdtemp(prefix="verif-real-")
    try:
        fsd = desc["fs"]
        for d in fsd["dirs"]:
            os.makedirs(os.path.join(root, d), exist_ok=True)
        for p, h in fsd["files"].items():
            full = os.path.join(root, p)
            os.makedirs(os.path.dirname(full), exist_ok=True)
            with open(full, "wb") as f:
                f.write(bytes.fromhex(h))
        env = {"PATH": os.environ.get("PATH", "/usr/bin:/bin"), "PYTHONPATH": os.path.realpath(repo), "PYTHONHASHSEED": "0",
               "PYTHONDONTWRITEBYTECODE": "1", "LC_ALL": "C.UTF-8", "HOME": root,
               "PYTHONIOENCODING": desc["knobs"].get("stdout_encoding", "utf-8") + ":strict"}
        cmd = [PY312] + list(PYFLAGS.get(int(opt or 0), [])) + (["-W", "error"] if desc["knobs"].get("warnings_error") else []) + ["-m", "oneliner"] + list(desc["argv"])
        if desc["knobs"].get("stderr_closed"):
            cmd = ["sh", "-c", 'exec "$@" 2>&-', "sh"] + cmd
        if strace:
            target = os.path.normpath(os.path.join(root, strace["path"]))
            trace_file = os.path.join(tempfile.gettempdir(), "verif-strace-%d-%s.log" % (os.getpid(), os.path.basename(root)))
            cmd = ["strace", "-f", "-o", trace_file, "-P", target, "-P", strace["path"], "-e", "trace=" + strace["syscall"],
                   "-e", "inject=%s:error=%s:when=%s" % (strace["syscall"], strace["errno"], strace.get("when", "1"))] + cmd
        try:
            p = subprocess.run(cmd, cwd=root, env=env, stdin=subprocess.DEVNULL, capture_output=True, timeout=60)
        except subprocess.TimeoutExpired:
            raise HarnessError("real process timed out: %r" % (cmd,))
        files = {}
        dirs = []
        for dp, dn, fn in os.walk(root):
            rel = os.path.relpath(dp, root)
            if rel != ".":
                dirs.append(rel)
            for name in fn:
                full = os.path.join(dp, name)
                with open(full, "rb") as f:
                    files[os.path.normpath(os.path.join(rel, name))] = f.read()
        injected = None
        if strace:
            try:
                with open(trace_file, "rb") as tf:
                    injected = b"(INJECTED)" in tf.read()
            except OSError:
                injected = None
            try:
                os.unlink(trace_file)
            except OSError:
                pass
        return {"status": p.returncode, "stdout": p.stdout, "stderr": p.stderr.decode("utf-8", "replace")[-800:],
                "files": files, "dirs": sorted(dirs), "injected": injected}
    finally:
        shutil.rmtree(root, ignore_errors=True)


def _norm_bytes(b: bytes, enc: str = "utf-8"):
    try:
        return normalise(b.decode(enc))
    except UnicodeDecodeError:
        return b.hex()


def compare_real(desc: dict, sim: dict, real: dict) -> list:
    """Differences between the simulated and the real process (empty list = agreement)."""
    diffs = []
    if sim["status"] != real["status"]:
        diffs.append("status sim=%s real=%s" % (sim["status"], real["status"]))
    senc = desc["knobs"].get("stdout_encoding", "utf-8")
    if _norm_bytes(bytes.fromhex(sim["stdout"]), senc) != _norm_bytes(real["stdout"], senc):
        diffs.append("stdout differs")
    def _unhex(h, real_bytes):
        if h.startswith("#sha256:"):
            import hashlib

            return real_bytes if hashlib.sha256(real_bytes).hexdigest() == h.split(":")[1] else b"<differs>"
        return bytes.fromhex(h)

    sim_files = {os.path.relpath(p, CWD): _unhex(h, real["files"].get(os.path.relpath(p, CWD), b"")) for p, h in sim["final"]["files"].items()
                 if p.startswith(CWD + "/")}
    if sorted(sim_files) != sorted(real["files"]):
        diffs.append("file listing sim=%s real=%s" % (sorted(sim_files), sorted(real["files"])))
    else:
        for p in sorted(sim_files):
            if _norm_bytes(sim_files[p]) != _norm_bytes(real["files"][p]):
                diffs.append("content of %s differs" % p)
    return diffs


def real_as_result(desc: dict, real: dict) -> dict:
    """Shape a real run like a simulated result so the same end-state oracles judge it."""
    initial = {"files": {os.path.normpath(os.path.join(CWD, p)): h for p, h in desc["fs"]["files"].items()}}
    final = {"files": {os.path.normpath(os.path.join(CWD, p)): b.hex() for p, b in real["files"].items()}}
    muts = []
    for p in sorted(set(initial["files"]) | set(final["files"])):
        if initial["files"].get(p) != final["files"].get(p):
            muts.append([0, "changed", "?", p])
    return {"status": real["status"], "exc": None, "stdout": real["stdout"].hex(), "stderr": real["stderr"],
            "initial": initial, "final": final, "history": [], "mutations": muts, "fired": [], "passthrough": [], "points": 0}


# ---------------------------------------------------------------------------------------------
# shrinking
# ---------------------------------------------------------------------------------------------


def _vc(v):
    return (v["oracle"], v["class"])


class Shrinker:
    def __init__(self, worker, target, budget=300):
        self.w = worker
        self.target = target
        self.budget = budget
        self.tests = 0

    def fails(self, desc) -> bool:
        if self.tests >= self.budget:
            return False
        self.tests += 1
        r = self.w.request({"cmd": "c16_check", "desc": c16.materialise(json.loads(json.dumps(desc)))})
        return any(_vc(v) == self.target for v in r["violations"])

    def shrink(self, desc):
        desc = json.loads(json.dumps(desc))
        # 1. faults
        plan = ddmin(desc.get("plan") or [], lambda pl: self.fails(dict(desc, plan=pl)), max_tests=40)
        desc["plan"] = plan
        # 2. option items (never drop the positional / -o parts)
        fixed = [p for p in desc["parts"] if p["kind"] != "item"]
        items = [p for p in desc["parts"] if p["kind"] == "item"]

        def with_items(its):
            d = dict(desc)
            d["parts"] = [p for p in desc["parts"] if p["kind"] != "item" or p in its]
            return d

        items = ddmin(items, lambda its: self.fails(with_items(its)), max_tests=80)
        desc = with_items(items)
        # 3. knobs to defaults
        for k, v in (("buffer_size", 8192), ("stdout_buffer", 8192), ("stdout_line_buffered", False), ("locale", "utf-8"),
                     ("stdout_encoding", "utf-8"), ("stdout_isatty", False), ("stderr_closed", False), ("warnings_error", False)):
            if desc["knobs"].get(k) != v:
                d = dict(desc, knobs=dict(desc["knobs"], **{k: v}))
                if self.fails(d):
                    desc = d
        # 4. simplest input program
        if desc.get("in_state") == "present" and desc["in_path"] in desc["fs"]["files"]:
            for prog in ("hello", "arith"):
                if desc.get("prog") == prog and desc.get("variant") == "plain":
                    break
                d = json.loads(json.dumps(desc))
                d["fs"]["files"][desc["in_path"]] = c16.make_input_bytes(prog, "plain").hex()
                d["prog"], d["variant"], d["special"] = prog, "plain", None
                if self.fails(d):
                    desc = d
                    break
        # 5. simplest initial state of OUT
        if desc.get("out_state") in ("shorter", "longer") and desc["out_path"] in desc["fs"]["files"]:
            d = json.loads(json.dumps(desc))
            del d["fs"]["files"][desc["out_path"]]
            d["out_state"] = "absent"
            if self.fails(d):
                desc = d
        return c16.materialise(desc)


def signature_of(desc, vclass, viols=()) -> str:
    if vclass[0] == "P2":
        # behaviour of the translation is a function of (program, options) only: identify the
        # finding by the program and the names that differ, not by the CLI plumbing around it
        for v in viols:
            if _vc(v) == vclass:
                return "P2/%s/prog=%s/%s" % (vclass[1], v.get("prog"), "/".join(v.get("names") or []))
    cl = sorted({it["cls"] + ((":" + it["name"]) if it["cls"] == "unknown_name" and (it.get("name") in c16.ATTR_NAMES or it.get("name", "").startswith("_")) else "")
                 for it in desc["items"]}) or ["none"]
    faults = sorted({"%s:%s" % (f.get("op"), f["kind"]) for f in desc.get("plan") or []})
    inp = desc.get("special") or ("pool" if desc.get("prog") else desc.get("in_state"))
    return "%s/%s/items=%s/in=%s/mode=%s/faults=%s" % (vclass[0], vclass[1], ",".join(cl), inp, desc["out_mode"], ",".join(faults) or "none")


def verify_replay(repo: str, doc: dict) -> dict:
    t = doc["template"]
    if doc.get("real"):
        real = run_real(repo, doc["desc"])
        res = real_as_result(doc["desc"], real)
        with fresh_worker(repo, t["exe"], int(t["hashseed"]), int(t.get("pad", 0)), int(t.get("opt", 0))) as fl:
            # judge with the template-side oracle (needs the reference table)
            r = fl.groups[0][0].request({"cmd": "c16_judge", "desc": doc["desc"], "result": res})
        classes = sorted({"%s/%s" % _vc(v) for v in r["violations"]})
        return {"reproduced": "%s/%s" % tuple(doc["violation_class"]) in classes, "classes": classes, "same_digest": True,
                "violations": r["violations"], "result": res}
    with fresh_worker(repo, t["exe"], int(t["hashseed"]), int(t.get("pad", 0)), int(t.get("opt", 0))) as fl:
        r = fl.groups[0][0].request({"cmd": "c16_check", "desc": doc["desc"], "events": True})
    classes = sorted({"%s/%s" % _vc(v) for v in r["violations"]})
    return {"reproduced": "%s/%s" % tuple(doc["violation_class"]) in classes, "classes": classes,
            "same_digest": r["digest"] == doc.get("digest"), "violations": r["violations"], "result": r.get("result"),
            "digest": r["digest"]}


# ---------------------------------------------------------------------------------------------
# main entry
# ---------------------------------------------------------------------------------------------


def run(repo: str, tier: str, seed: int, replay_dir=None, write_ev=True, jobs=None, quiet=False) -> int:
    T = Timer()
    P = tier_params(tier)
    jobs = jobs or default_jobs()
    hs = hashseeds_for(seed, 2)
    # two template kinds: plain, and `python -O` (asserts of the CLI script and of the library stripped)
    specs = [(PY312, hs[0], 0, 0), (PY312, hs[1], 0, 1)]
    replicas = max(1, min(jobs, 16) // 2)
    cov = {"evaluations": 0, "probes": {}, "faults_fired": {}, "phases": {}, "ungated": {}}
    traces, tuples, classes = set(), set(), {}
    samples = []
    failures = []
    violations = []

    def log(*a):
        if not quiet:
            eprint("[C16 %6.1fs]" % T.s(), *a)

    def merge(r, g=0):
        for f in r["failures"]:
            f["group"] = g
        for k in ("probes", "faults", "ungated"):
            dst = cov["faults_fired"] if k == "faults" else cov[k]
            for kk, vv in r[k].items():
                dst[kk] = dst.get(kk, 0) + vv
        for kk, vv in r["classes"].items():
            classes[kk] = classes.get(kk, 0) + vv
        traces.update(r["traces"])
        tuples.update(r["tuples"])
        cov["_io"] = cov.get("_io", 0) + r["io_calls"]
        cov["_fault_runs"] = cov.get("_fault_runs", 0) + r["fault_runs"]
        cov["_bases"] = cov.get("_bases", 0) + r["bases"]
        cov["evaluations"] += r["runs"]
        failures.extend(r["failures"])

    with Fleet(repo, specs, replicas=replicas, jobs=jobs) as fleet:
        log("fleet up: %d templates, jobs=%d" % (len(fleet.workers()), jobs))
        # ---- systematic phase ------------------------------------------------------------
        sb = systematic_bases()
        sjobs = [((i // BATCH) % 4 == 3 and 1 or 0, {"cmd": "c16_batch", "descs": sb[i:i + BATCH], "faults": P["systematic_faults"], "multi": 0})
                 for i in range(0, len(sb), BATCH)]
        for (g, req), r in zip(sjobs, fleet.run(sjobs)):
            merge(r, g)
        cov["phases"]["systematic"] = {"base_cases": len(sb), "what": "every pool program x {no -C, 8 option sets} x {-o, stdout}; "
                                       "translation evaluated against the script for each (P2)",
                                       "with_fault_enumeration": P["systematic_faults"]}
        log("systematic: %d base cases, failures so far %d" % (len(sb), len(failures)))

        # ---- seeded base cases + exhaustive single-fault enumeration + multi-fault ------
        n = P["bases"]
        seeds = [derive_seed(seed, PROP, i) for i in range(n)]
        bjobs = []
        nd = (P["determinism_pairs"] + BATCH - 1) // BATCH
        for bi, i in enumerate(range(0, n, BATCH)):
            bjobs.append((1 if bi % 2 else 0, {"cmd": "c16_batch", "seeds": seeds[i:i + BATCH], "faults": True, "multi": P["multi"],
                              "n_samples": 1 if bi < 4 else 0, "want_digests": bi < nd}))
        first = {}
        for (g, req), r in zip(bjobs, fleet.run(bjobs)):
            merge(r, g)
            first.update(r["digests"])
            samples.extend(r["samples"])
        cov["phases"]["seeded"] = {"base_cases": n, "single_fault_enumeration": "every fault point x every applicable fault kind",
                                   "multi_fault_plans_per_base": P["multi"]}
        log("seeded: %d base cases, %d runs total, failures so far %d" % (n, cov["evaluations"], len(failures)))

        # ---- determinism self-check ------------------------------------------------------
        djobs = [(g, dict(req, n_samples=0, want_digests=True)) for g, req in bjobs[:nd]]
        pairs = mism = 0
        for r in fleet.run(list(reversed(djobs))):
            for k, v in r["digests"].items():
                pairs += 1
                if first.get(k) != v:
                    mism += 1
        cov["determinism_selfcheck"] = {"pairs_compared": pairs, "mismatches": mism}
        if mism:
            raise HarnessError("determinism self-check: %d of %d repeated runs differ" % (mism, pairs))
        log("determinism self-check: %d pairs, 0 mismatches" % pairs)

        # ---- the model must cover the I/O path used ---------------------------------------
        model_fail = [f for f in failures if any(v["oracle"] == "MODEL" for v in f["violations"])]
        if model_fail:
            raise HarnessError("the simulated process opened real files through a path the model does not cover: %s" %
                               json.dumps(model_fail[0]["violations"])[:400])

        # ---- cross-validation against real processes -------------------------------------
        w0 = fleet.groups[0][0]
        real_n = real_dis = 0
        real_viol = []
        failing_digests = {digest(f["desc"]["argv"] + [f["desc"]["fs"]]) for f in failures}
        i = 0
        cand_seed = 0
        while real_n < P["real"] and cand_seed < P["real"] * 20:
            d = w0.request({"cmd": "c16_gen", "seed": derive_seed(seed, "real", cand_seed)})
            cand_seed += 1
            if not real_runnable(d):
                continue
            simr = w0.request({"cmd": "c16_check", "desc": d, "events": True})
            real = run_real(repo, d)
            real_n += 1
            diffs = compare_real(d, simr["result"], real)
            jr = w0.request({"cmd": "c16_judge", "desc": d, "result": real_as_result(d, real)})
            if jr["violations"]:
                real_viol.append({"seed": d["seed"], "desc": d, "violations": jr["violations"], "real": True})
            elif diffs and not simr["violations"]:
                real_dis += 1
                raise HarnessError("simulation and real process disagree on argv=%r: %s\nreal stderr: %s" % (
                    d["argv"], diffs, real["stderr"][-300:]))
        cov["phases"]["real_process_cross_validation"] = {"cases": real_n, "disagreements": real_dis,
                                                          "violations_seen_in_real_runs": len(real_viol)}
        log("cross-validation: %d real processes, %d disagreements" % (real_n, real_dis))

        # strace: inject the same fault into a real process and compare the outcome class
        st_n = 0
        st_skipped = 0
        if shutil.which("strace"):
            cand = 0
            while st_n < P["strace"] and cand < P["strace"] * 400:
                d = w0.request({"cmd": "c16_gen", "seed": derive_seed(seed, "strace", cand)})
                cand += 1
                if not real_runnable(d) or d["out_mode"] != "file" or d["out_state"] != "absent" or d["in_state"] != "present":
                    continue
                if any(it["cls"] in c16.INVALID_CLASSES for it in d["items"]):
                    continue
                base = w0.request({"cmd": "c16_check", "desc": d, "events": True})["result"]
                if base["status"] != 0:
                    continue
                kind = ("write", "ENOSPC") if st_n % 2 == 0 else ("openat", "EACCES")
                pts = [(s, op) for s, op, role, a, r_ in base["history"] if role == "OUT" and op == ("write" if kind[0] == "write" else "open")]
                if not pts:
                    continue
                plan = [{"at": pts[0][0], "op": pts[0][1], "kind": kind[1]}]
                simf = w0.request({"cmd": "c16_check", "desc": dict(d, plan=plan), "events": True})["result"]
                real = run_real(repo, d, strace={"path": d["out_path"], "syscall": kind[0], "errno": kind[1], "when": "1"})
                if not real.get("injected"):
                    # the real process never made that system call on OUT (it writes through sendfile,
                    # a temporary file, ...): nothing was injected, nothing to compare
                    st_skipped += 1
                    if st_skipped > 4 * P["strace"]:
                        break
                    continue
                st_n += 1
                if (simf["status"] == 0) != (real["status"] == 0):
                    raise HarnessError("strace-injected real run and simulated faulted run disagree: argv=%r fault=%s sim=%s real=%s" % (
                        d["argv"], kind, simf["status"], real["status"]))
        cov["phases"]["strace_fault_cross_validation"] = {"cases": st_n, "disagreements": 0, "skipped_because_nothing_was_injected": st_skipped}
        log("strace cross-validation: %d cases" % st_n)

        stray = fleet.stray_files()
        if stray:
            raise HarnessError("simulated processes created real files (I/O path outside the model): %s" % stray[:5])

        # ---- shrink + replay-verify -------------------------------------------------------
        model_gaps = []
        gap_classes = set()
        by_class = {}
        for f in failures + real_viol:
            for v in f["violations"]:
                by_class.setdefault(_vc(v), []).append(f)
        seen_sig = set()
        for vclass in sorted(by_class):
            cands = sorted(by_class[vclass], key=lambda f: (len(f["desc"].get("plan") or []), len(f["desc"]["argv"]), digest(f["desc"])))
            n_sig = 0
            for f in cands[:8]:
                desc = f["desc"]
                is_real = bool(f.get("real"))
                wg = fleet.groups[f.get("group", 0)][0]
                if is_real:
                    mdesc = desc
                    tests = 0
                else:
                    sh = Shrinker(wg, vclass)
                    if not sh.fails(desc):
                        raise HarnessError("failure did not reproduce before shrinking: %s" % (vclass,))
                    mdesc = sh.shrink(desc)
                    tests = sh.tests
                if is_real:
                    cur_v = f["violations"]
                else:
                    cur_v = wg.request({"cmd": "c16_check", "desc": mdesc})["violations"]
                sig = signature_of(mdesc, vclass, cur_v)
                if sig in seen_sig:
                    continue
                seen_sig.add(sig)
                if is_real:
                    doc = {"property": PROP, "kind": "cli", "real": True, "template": fleet.group_ident(0), "desc": mdesc,
                           "violation_class": list(vclass), "violations": f["violations"], "signature": sig}
                else:
                    r = wg.request({"cmd": "c16_check", "desc": mdesc, "events": True})
                    doc = {"property": PROP, "kind": "cli", "template": fleet.group_ident(f.get("group", 0)), "desc": mdesc,
                           "violation_class": list(vclass), "violations": r["violations"], "digest": r["digest"],
                           "signature": sig, "origin_seed": f.get("seed"), "shrink_tests": tests,
                           "io_history": r["result"]["history"], "status": r["result"]["status"], "exc": r["result"]["exc"],
                           "replay": "./check C16 --replay <this file>"}
                vr = verify_replay(repo, doc)
                if not (vr["reproduced"] and vr["same_digest"]):
                    raise HarnessError("replay in a fresh interpreter did not reproduce %s (%s)" % (sig, vr["classes"]))
                # A fault-free finding of the simulation must also be a finding of a REAL process
                # (when the case can be run for real): otherwise the model does not cover the I/O path
                # the code uses, and that is a defect of the machinery, never a violation.
                if not is_real and not (mdesc.get("plan") or []) and vclass[0] in ("P1", "P3") and real_runnable(mdesc):
                    real = run_real(repo, mdesc, opt=int(doc["template"].get("opt", 0) or 0))
                    jr = wg.request({"cmd": "c16_judge", "desc": mdesc, "result": real_as_result(mdesc, real)})
                    if not any(_vc(v) == vclass for v in jr["violations"]):
                        gap_classes.add(vclass)
                        model_gaps.append("%s: simulated status %s (%s), real status %s; real stderr: %s" % (
                            sig, doc.get("status"), doc.get("exc"), real["status"], real["stderr"][-200:].replace("\n", " | ")))
                        seen_sig.discard(sig)
                        continue
                    doc["confirmed_by_real_process"] = True
                elif not is_real and not (mdesc.get("plan") or []) and vclass in gap_classes:
                    # the same class of fault-free finding was already disproved by a real process in
                    # this run: an instance that cannot be run for real is not trusted either
                    model_gaps.append("%s: cannot be run for real; same class disproved by a real process above" % sig)
                    seen_sig.discard(sig)
                    continue
                violations.append((doc, sig))
                n_sig += 1
                if n_sig >= 3:
                    break

    if model_gaps:
        if not any(not match_known(PROP, sig_) for _doc, sig_ in violations):
            raise HarnessError("the simulation reports a fault-free violation that a real process does not show "
                               "(the model does not cover an I/O path the code uses): %s" % model_gaps[:3])
        for g_ in model_gaps[:5]:
            eprint("NOTE property=C16 simulated finding not confirmed by a real process, not reported: %s" % g_)
    rc = 0
    n_viol = 0
    for doc, sig in violations:
        known = match_known(PROP, sig)
        if known:
            print("KNOWN-FINDING: property=%s %s" % (PROP, known.get("what", sig)))
            continue
        n_viol += 1
        path = write_replay(PROP, "%s-%s" % (seed, digest(doc["desc"])[:10]), doc, replay_dir)
        print("VIOLATION property=%s replay=%s" % (PROP, path))
        eprint("  signature: %s" % sig)
        rc = 1
    wall = T.s()
    cov["distinct_nontrivial"] = len(tuples)
    cov["rule"] = ("a case = one simulated process (argv, initial file tree, knobs, fault plan); base cases are enumerated "
                   "systematically (pool x option sets x output mode) and by seed; for every seeded base case EVERY fault point "
                   "of its fault-free I/O history is failed once with EVERY applicable fault kind (exhaustive single-fault), plus "
                   "seeded 2-3-fault plans; distinct non-trivial = distinct (option-item classes x output mode x input kind x OUT "
                   "state x fault kind x fault position) tuples")
    cov["samples"] = samples[:6]
    cov["distinct_io_histories"] = len(traces)
    cov["distinct_case_classes"] = len(classes)
    cov["base_cases"] = cov.pop("_bases", 0)
    cov["fault_injected_runs"] = cov.pop("_fault_runs", 0)
    cov["fault_free_runs"] = cov["evaluations"] - cov["fault_injected_runs"]
    cov["runs_per_hour"] = int(cov["evaluations"] / max(wall, 1e-6) * 3600)
    cov["seeds_per_hour"] = int(P["bases"] / max(wall, 1e-6) * 3600)
    cov["simulated_time"] = "not applicable: no clock or timer in the system; logical steps are reported instead"
    cov["logical_steps"] = {"simulated_io_calls": cov.pop("_io", 0)}
    cov["exhaustive"] = False
    cov["real_vs_stub"] = {"real": ["oneliner/__main__.py", "config.py", "the converter", "argparse", "warnings",
                                    "CPython io.BufferedReader/BufferedWriter/TextIOWrapper"],
                           "stub": ["raw file layer (SimRaw)", "process boundary: fork + runpy, exit status derived from SystemExit/exception"],
                           "real_everything": "the cross-validation samples (real processes, some under strace fault injection)"}
    cov["violations_reported"] = [sig for _, sig in violations]
    if write_ev:
        write_evidence(PROP, tier, seed, "fault_enumeration", cov, wall, n_viol, [
            "exit status of the simulated process follows CPython's rules (SystemExit code, 1 for an uncaught exception, 120 when the final stdout flush fails)",
            "file access goes through builtins.open / io.open / os.replace|rename|remove; other paths to the disk are outside the model and reported as HARNESS-ERROR",
            "legality of a -C value / name is defined by the three declared options and their two values each",
        ])
    log("done rc=%d violations=%d wall=%.1fs evaluations=%d" % (rc, n_viol, wall, cov["evaluations"]))
    return rc


def replay(repo: str, path: str) -> int:
    with open(path, encoding="utf-8") as f:
        doc = json.load(f)
    vr = verify_replay(repo, doc)
    d = doc["desc"]
    eprint("  argv: %r" % (d["argv"],))
    eprint("  fs: files=%s dirs=%s ro=%s" % (sorted(d["fs"]["files"]), d["fs"]["dirs"], d["fs"]["ro"]))
    eprint("  plan: %s knobs: %s" % (d.get("plan"), d.get("knobs")))
    res = vr.get("result") or {}
    eprint("  status=%s exc=%s" % (res.get("status"), res.get("exc")))
    for h in (res.get("history") or [])[:40]:
        eprint("    io %s" % (h,))
    for v in vr["violations"]:
        eprint("  violation: %s" % json.dumps(v, sort_keys=True)[:600])
    if vr["reproduced"]:
        print("VIOLATION property=%s replay=%s" % (PROP, path))
        return 1
    print("replay did not reproduce (property holds on this tree for this replay)")
    return 0
