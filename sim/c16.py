"""C16 - the command line writes exactly the API result and validates options first.

Simulated system: the real ``oneliner/__main__.py`` executed by runpy inside a forked child,
with argv, builtins.open (SimFS), stdout/stderr and the exit status owned by the simulator.
"""
from __future__ import annotations

import gc
import io
import os
import posixpath
import random as _random
import sys
import tempfile  # noqa: F401 - imported in the template (its private name generator is replaced in children)
import tokenize  # noqa: F401 - imported in the template so that SimFS can patch its captured open()
import uuid  # noqa: F401

from .core import OPTION_NAMES, OPTION_SPACE, as_value, cjson, derive_seed, digest, normalise, sha_text
from .simfs import CWD, Patches, SimFS
from .worker import fork_run

STDOUT_ENCODINGS = ["utf-8", "ascii", "latin-1", "cp1252"]
PRNG_ALIGN = 20240229
_ADDR_RE = __import__("re").compile(r"0x[0-9a-fA-F]{4,}")  # both the CLI child and the reference child seed `random` with this

# ------------------------------------------------------------------------------------------
# pool: deterministic, self-contained scripts of the supported fragment
# ------------------------------------------------------------------------------------------

CLI_POOL = {
    "hello": "print('hello')\n",
    "arith": "a = 2\nb = a ** 3 + 1\nprint(a, b)\n",
    "ifelse": "x = 3\nif x > 2:\n    print('big')\n    y = 1\nelse:\n    print('small')\n    y = 2\nprint(y)\n",
    "elif": "v = 5\nif v < 3:\n    r = 'a'\nelif v < 6:\n    r = 'b'\nelse:\n    r = 'c'\nprint(r)\n",
    "while": "i = 0\ns = 0\nwhile i < 5:\n    i += 1\n    if i == 2:\n        continue\n    if i == 4:\n        break\n    s += i\nelse:\n    s = -1\nprint(i, s)\n",
    "for": "acc = []\nfor k in range(6):\n    if k % 2:\n        continue\n    if k == 4:\n        break\n    acc.append(k)\nelse:\n    acc.append('e')\nprint(acc)\n",
    "func": "def f(a, b=2, *c, d, **e):\n    return (a, b, c, d, e)\nr = f(1, d=4)\nprint(r)\n",
    "closure": "def mk(p, q, r):\n    def inner():\n        return p + q + r\n    return inner\nv = mk(1, 2, 3)()\nprint(v)\n",
    "nonlocal": "def counter(start, step):\n    n = start\n    def inc():\n        nonlocal n\n        n += step\n        return n\n    return inc\nc = counter(10, 5)\nc()\nw = c()\nprint(w)\n",
    "class": "class A:\n    k = 1\n    def m(self):\n        return self.k + 1\nclass B(A):\n    def m(self):\n        return super().m() * 10\nz = B().m()\nprint(z)\n",
    "ret_loop": "def find(xs, t):\n    for i, x in enumerate(xs):\n        if x == t:\n            return i\n    return -1\np = find([5, 6, 7], 7)\nq = find([5], 0)\nprint(p, q)\n",
    "comp": "m = [[i * j for i in range(3)] for j in range(3)]\nd = {k: v for k, v in zip('abc', m)}\nt = sum(x for row in m for x in row)\nprint(m, d, t)\n",
    "destruct": "a, (b, *c), d = 1, (2, 3, 4), 5\nx = y = [a, b]\nprint(a, b, c, d, x, y)\n",
    "aug": "d = {'k': [1]}\nd['k'] += [2]\nn = 3\nn **= 2\nl = [1, 2, 3, 4]\nl[1:3] = [9]\nprint(d, n, l)\n",
    "imports": "import os.path as osp, sys\nfrom os import sep as S\nj = osp.join('a', 'b')\nprint(j == 'a' + S + 'b', sys.maxsize > 0)\n",
    "fstring": "name = 'w'\nnum = 3.14159\ns = f\"{name!r:>6}|{num:.2f}|{{}}|{'x' + name}\"\nprint(s)\n",
    "quotes": "s1 = 'it\\'s'\ns2 = \"say \\\"hi\\\"\"\ns3 = 'tab\\there\\nnl\\\\'\nprint(s1, s2, s3)\n",
    "unicode": "\u53d8\u91cf = 'caf\u00e9 \u4e2d\u6587 \\u00e9 \U0001f600'\n\u00fcber = len(\u53d8\u91cf)\nprint(\u53d8\u91cf, \u00fcber)\n",
    "latin1": "s = '\u00e9\u00e8\u00ff \\xe9'\nprint(s, len(s))\n",
    "global": "g = 0\ndef bump():\n    global g\n    g += 1\nbump()\nbump()\nprint(g)\n",
    "lambda": "sq = lambda v, /, w=2, *, k=1: v * w + k\nr1 = sq(3)\nr2 = (lambda: 7)()\nprint(r1, r2)\n",
    "prec": "a = 2\nb = -a ** 2 + (a + 1) * 3 // 2 % 5\nc = not a or a and b\nd = a if b else c\ne = (1, 2)[0]\nprint(b, c, d, e)\n",
    "walrus": "data = [1, 2, 3]\nif (n := len(data)) > 2:\n    msg = f'{n} items'\nelse:\n    msg = 'few'\nprint(msg, n)\n",
    "decor": "def twice(fn):\n    return lambda *a: fn(*a) * 2\n@twice\ndef h(v):\n    return v + 1\nu = h(2)\nprint(u)\n",
    "bytes": "b = b'\\x00\\xffab'\nprint(b, len(b), 0x10, 1e3, 2j)\n",
    "multiline_strings": "doc = \'\'\'line one\nline two\n\nline four\'\'\'\nf = f\"\"\"a\n{len(doc)}\nb\"\"\"\nprint(len(doc), doc.count(chr(10)), f)\n",
    'sc_falsy_bodies': "log = []\nc = 1\nif c:\n    x = 0\nelse:\n    x = 1\nif not c:\n    y = 5\nelse:\n    y = None\nif c:\n    z = ''\nlog.append((x, y, z))\nif c:\n    log.append('a')\n    w = 0\nelif x:\n    w = 1\nelse:\n    w = 2\nif x:\n    v = 1\nelif c:\n    v = 0\nelse:\n    v = 2\nprint(log, w, v)\n",
    'sc_nested_if': 'def sign(n):\n    if n > 0:\n        if n > 10:\n            r = 0\n        else:\n            r = False\n    elif n == 0:\n        r = None\n    else:\n        r = []\n    return r\nres = [sign(k) for k in (20, 5, 0, -1)]\nprint(res)\n',
    'ret_nested_loops': "def find(grid, t):\n    for i, row in enumerate(grid):\n        j = 0\n        while j < len(row):\n            if row[j] == t:\n                return (i, j)\n            if row[j] < 0:\n                break\n            j += 1\n        else:\n            continue\n        return 'neg'\n    return None\na = find([[1, 2], [3, 4]], 4)\nb = find([[1, -2], [3, 4]], 4)\nc = find([[1]], 9)\nprint(a, b, c)\n",
    'while_else_continue': "n = 0\nout = []\nwhile n < 6:\n    n += 1\n    if n % 2:\n        continue\n    out.append(n)\nelse:\n    out.append('done')\nm = 0\nwhile True:\n    m += 1\n    if m > 2:\n        break\nelse:\n    out.append('never')\nprint(out, n, m)\n",
    'prec_zoo': 'a, b, c = 2, 3, 4\nr = [-a ** 2, (-a) ** 2, a ** -1, a ** b ** 2, (a ** b) ** 2, -a * b, -(a * b), not a == b, (not a) == b,\n     a - (b - c), a - b - c, a / (b / c), a // b % c, a % (c // b), a << b >> 1, a & b | c ^ a, ~a + 1, -(-a), +-a,\n     a < b < c, (a < b) < c, a if b else c if a else b, (a if b else c) if a else b, (lambda: a)() + 1,\n     a @ 1 if False else 0, [a, b][-1], (a, b)[::-1], a and b or c, a or b and c, not (a and b)]\nprint(r)\n',
    'prec_lambda_walrus': "f = lambda x: x if x else -x\ng = lambda x, y=(1, 2): (x, *y)\nh = (lambda: (yield_ := 1))()\nk = [y for x in range(5) if (y := x * 2) > 2]\nm = {(lambda v: v)(1): (1, 2)[1:], **{'k': -1}}\nn = f(0), f(-3), g(0), h, k\nprint(n, m, y)\n",
    'subscripts_slices': "d = {(1, 2): 'a'}\nl = list(range(10))\nt = d[1, 2], l[1:8:2], l[::-1][0], l[-3:], l[:2], l[slice(1, 3)], l[1:2][0:1], 'abc'[1], (1, 2, 3)[-1], l[l[1]]\nl[2:4] = [0]\nl[0], l[1] = l[1], l[0]\nprint(t, l)\n",
    'call_shapes': "def f(*a, **k):\n    return (a, sorted(k.items()))\nx = [1, 2]\ny = {'p': 1}\nr = [f(*x), f(*x, 3), f(**y), f(*x, **y, q=2), f(i for i in x), f((i for i in x), 1)[0][1], f(x if x else y), f(a := 5), f(lambda: 0)[0][0](), a]\nr[4] = list(r[4][0][0])\nprint(r)\n",
    'fstring_zoo': 'w = 7\nname = \'n\'\nd = {\'k\': 1.5}\nr = [f\'{w:>{w}}\', f\'{w!r}\', f\'{d["k"]:.2f}\', f\'{name}{w}\', f\'{{}}{w}\', f\'{w:{"0"}{3}}\', f\'{w + 1 = }\', f"{\'a\' if w else \'b\'}", f\'{(lambda: 1)()}\', f\'{w,}\', f\'{ {1: 2}[1] }\']\nprint(r)\n',
    'augassign_objects': "class Acc:\n    def __init__(self):\n        self.log = []\n        self.n = 0\n    def __iadd__(self, o):\n        self.log.append(o)\n        return self\nclass Box:\n    pass\nb = Box()\nb.acc = Acc()\nb.acc += 1\nb.acc += 2\nb.n = 1\nb.n += 2\nd = {'a': Acc(), 'n': 1}\nd['a'] += 3\nd['n'] *= 5\nt = (1, 2)\nt += (3,)\ns = 'x'\ns *= 2\nprint(b.acc.log, b.n, d['a'].log, d['n'], t, s)\n",
    'nonlocal_comprehension': 'def outer():\n    total = 0\n    items = [1, 2, 3]\n    def add(k):\n        nonlocal total\n        total += k\n        return total\n    sums = [add(i) for i in items]\n    sq = {i: total + i for i in items}\n    return sums, sq, total\nr = outer()\nprint(r)\n',
    'class_features': "class Meta(type):\n    def __new__(m, n, b, ns, **kw):\n        c = super().__new__(m, n, b, ns)\n        c.kw = kw\n        return c\nclass A(metaclass=Meta, flag=1):\n    x = 1\n    y = x + 1\n    def m(self):\n        return self.y\n    @staticmethod\n    def s():\n        return 's'\n    @classmethod\n    def c(cls):\n        return cls.x\n    @property\n    def p(self):\n        return self.x * 10\nclass B(A):\n    def m(self):\n        return super().m() + 1\no = B()\nr = (o.m(), B.s(), B.c(), o.p, A.kw, B.__mro__[1].__name__)\nprint(r)\n",
    'globals_in_functions': 'counter = 0\nnames = []\ndef bump(k):\n    global counter\n    counter += k\n    names.append(counter)\n    return counter\ndef shadow():\n    counter = 100\n    return counter\nr = [bump(1), bump(2), shadow(), counter]\nprint(r, names)\n',
    'backslashes': "p = 'C:\\\\new\\\\table'\nr = r'\\bword\\b'\nq = f'{p}\\\\x'\nu = 'a\\\\'\nprint(p, r, q, u, len(p), len(r))\n",
    'sole_continue_return': "def f(xs):\n    out = []\n    for x in xs:\n        if x < 0:\n            continue\n        else:\n            out.append(x)\n        if x > 5:\n            return\n        else:\n            out.append(-x)\n        out.append('t')\n    return out\ndef g(v):\n    if v:\n        return\n    else:\n        v = 'e'\n    return v\ndef loop():\n    acc = []\n    for k in range(4):\n        if k == 1:\n            continue\n        else:\n            acc.append(k)\n    return acc\nacc = loop()\nres = (f([1, -1, 2]), f([9, 1]), g(0), g(1), acc)\nprint(res)\n",
    'branch_tail_interrupt': "def h(xs):\n    out = []\n    for x in xs:\n        if x % 2:\n            out.append('odd')\n            continue\n        out.append(x)\n        if x > 3:\n            out.append('big')\n            return out\n        out.append('small')\n    out.append('end')\n    return out\ndef w(n):\n    r = []\n    while n:\n        n -= 1\n        if n == 2:\n            r.append('two')\n            continue\n        r.append(n)\n    return r\nprint(h([1, 2, 3]), h([2, 4, 6]), w(4))\n",
    'same_name_nested_comp': 'def tri(limit, n):\n    def inner():\n        return n\n    rows = [[n for n in range(n)] for n in range(limit) if n % 2 == 0]\n    return rows, inner()\nclass K:\n    n = 3\n    m = [[n for n in range(n)] for n in range(4) if n]\nprint(tri(5, 7), K.m, K.n)\n',
    "ellipsis_tail": "x = 1\nif x:\n    pass\nelse:\n    ...\n",
    "mentions_paths": "names = ['out.txt', 'in.py', '-o', '-Cunparser=oneliner', 'r\u00e9sultat.txt']\nprint(names, __name__ == '__main__')\n",
    "print_alias": "p = print\nshow = lambda *a: p('>', *a)\nshow('x', 1)\np(len('abc'))\n",
    "percent": "fmt = '%s and %d%% of {} {0} {name} %(k)s'\nout = 'a %s b' % 'x'\nbr = '{}{{}}'.format(1)\nprint(fmt, out, br, 7 % 3)\n",
    "biginput": "".join("v%03d = 'payload %03d %s'\n" % (i, i, "x" * 60) for i in range(120)) + "print(v000[:12], v119[:12])\n",
}

# contents-level variants (bytes -> how the text layer of the CLI sees them)
VARIANT_KINDS = ["plain", "plain", "plain", "crlf", "bom", "trailing_ws", "no_final_newline"]

def _block_boundary_input() -> bytes:
    """A CR LF script larger than the usual buffer sizes whose line terminators and multi-byte
    characters straddle the power-of-two offsets 4096 ... 131072 INSIDE a multi-line string literal:
    at each boundary B either the CR of a CR LF pair is the byte B-1, or a 3-byte character starts at
    B-1.  Readers that translate newlines or decode UTF-8 block by block by hand get it wrong."""
    out = bytearray(b's = """start\r\n')
    k = 12
    while k <= 17:
        B = 1 << k
        # fill with 61-byte lines up to just before the boundary
        while len(out) + 64 < B - 1:
            out += b"x" * 61 + b"\r\n"
        pad = (B - 1) - len(out)
        if k % 2 == 0:
            out += b"y" * pad + b"\r\n"            # CR is byte B-1, LF is byte B
        else:
            out += b"z" * pad + "\u4e2d".encode("utf-8") + b"\r\n"   # the 3-byte character starts at B-1
        k += 1
    out += b'end"""\r\nprint(len(s), s.count(chr(10)), s.count(chr(13)))\r\n'
    return bytes(out)


SPECIAL_INPUTS = {
    # name: (bytes, note)
    "empty": b"",
    "comment_only": b"# nothing here\n",
    "surrogate": b"s = '\\ud800'\nprint(len(s))\n",
    "surrogate_pair_esc": b"s = '\\udc80x'\nn = len(s)\nprint(n)\n",
    "unsupported_try": b"try:\n    x = 1\nexcept Exception:\n    x = 2\nprint(x)\n",
    "unsupported_with": b"with open('f') as f:\n    pass\n",
    "syntax_error": b"def (:\n",
    "invalid_utf8": b"s = '\xff\xfe'\nprint(s)\n",
    "nul_byte": b"x = 1\n\x00\n",
    "cookie_latin1": b"# -*- coding: latin-1 -*-\ns = 'caf\xc3\xa9 \xe4\xb8\xad'\nprint(s, len(s))\n",
    "cookie_unknown": b"# vim: set fileencoding=nonsuch :\nv = 'x\xc3\xa9'\nprint(v)\n",
    "cookie_utf8": b"#!/usr/bin/env python\n# coding: utf-8\nw = '\xc3\xbc'\nprint(w)\n",
    "bom_hello": b"\xef\xbb\xbfprint('hello')\n",
    "lone_cr_in_string": b"s = 'a\\rb'\nt = \"\"\"x\r\ny\rz\"\"\"\nprint(len(s), len(t))\n",
    "formfeed": b"x = 1\n\x0c\ny = 2\nprint(x + y)\n",
    "unicode_linesep": "s = 'a\u2028b\u2029c\x85d'\nt = f'{s}\u2028{len(s)}'\nprint(len(s), len(t), ascii(s))\n".encode("utf-8"),
    "block_boundaries": _block_boundary_input(),
    "blank_line_in_string": b's = """first\n    \n\t\nlast  """\nprint(len(s), repr(s))\n',
    "indented_whole": b"    x = 1\n    print(x)\n",
    "trailing_space_lines": b"a = 1   \n\n   \nb = 'x  '   \nprint(a, b)\n   ",
}

ATTR_NAMES = ["config_names", "__doc__", "__module__", "__dict__", "__class__", "__init__", "__weakref__",
              "__eq__", "__hash__", "__setattr__", "__dir__", "__annotations__"]


def make_input_bytes(prog: str, variant: str) -> bytes:
    src = CLI_POOL[prog]
    if variant == "crlf":
        src = src.replace("\n", "\r\n")
    elif variant == "trailing_ws":
        src = src + "\n\n   \n"
    elif variant == "no_final_newline":
        src = src.rstrip("\n")
    data = src.encode("utf-8")
    if variant == "bom":
        data = b"\xef\xbb\xbf" + data
    return data


def decode_like_cli(data: bytes):
    """What ``open(IN, 'r', encoding='utf8').read()`` yields, through the real text layer."""
    try:
        return io.TextIOWrapper(io.BytesIO(data), encoding="utf-8").read()
    except UnicodeDecodeError:
        return None


# ------------------------------------------------------------------------------------------
# child side
# ------------------------------------------------------------------------------------------


def _exit_status(code) -> int:
    if code is None:
        return 0
    if isinstance(code, int):
        return code & 0xFF
    return 1


def child_cli(desc: dict) -> dict:
    """One simulated process: python -m oneliner <argv> on SimFS under a fault plan."""
    import random
    import runpy

    fsd = desc["fs"]
    fs = SimFS({p: bytes.fromhex(h) for p, h in fsd["files"].items()}, fsd.get("dirs", []), fsd.get("ro", []),
               fsd.get("unreadable", []), roles=desc.get("roles"),
               plan=[f for f in (desc.get("plan") or []) if f.get("op") != "line"], knobs=desc.get("knobs"))
    fs.set_mtimes(fsd.get("mtimes"))
    fs.fifos = {SimFS.norm(pth) for pth in fsd.get("fifos", [])}
    fs.set_links(fsd.get("links"))
    keep = set()
    if desc.get("out_path") is not None:
        keep.add(fs.resolve(SimFS.norm(desc.get("out_key") or desc["out_path"])))
        keep.add(SimFS.norm(desc.get("out_key") or desc["out_path"]))
        keep.update(SimFS.norm(v) for v in (fsd.get("links") or {}).values())
    initial = fs.snapshot(keep)
    patches = Patches(fs)
    old = (sys.argv, sys.stdout, sys.stderr)
    old_stdin = sys.stdin
    err = io.StringIO()
    status = None
    exc = None
    random.seed(PRNG_ALIGN)
    # crash point: KeyboardInterrupt (what SIGINT becomes) raised at the k-th executed line of the
    # CLI script itself; the fault-free run counts the lines
    intr = None
    for f in desc.get("plan") or []:
        if f.get("op") == "line":
            intr = f
    main_lines = [0]
    suffix = os.sep + "oneliner" + os.sep + "__main__.py"

    def tracer(frame, event, arg):
        if not frame.f_code.co_filename.endswith(suffix):
            return None
        if event == "line":
            main_lines[0] += 1
            if intr is not None and main_lines[0] == intr["at_line"]:
                fs.fired.append({"at": 0, "kind": "SIGINT", "op": "line", "line": frame.f_lineno})
                raise KeyboardInterrupt()
        return tracer

    patches.install()
    patches.install_determinism(PRNG_ALIGN, int(desc.get("invocation", 0)))
    import warnings as _warnings

    saved_filters = _warnings.filters[:]
    if (desc.get("knobs") or {}).get("warnings_error"):
        _warnings.simplefilter("error")
    try:
        sys.argv = ["oneliner"] + list(desc["argv"])
        sys.stdout = fs.make_stdout()
        # simulated standard input: empty (the command is started with </dev/null); reading it is recorded
        sys.stdin = io.TextIOWrapper(io.BytesIO(b""), encoding="utf-8")
        sys.stderr = None if (desc.get("knobs") or {}).get("stderr_closed") else err
        try:
            if desc.get("trace_main") or intr is not None:
                sys.settrace(tracer)
            try:
                runpy.run_module("oneliner", run_name="__main__", alter_sys=True)
            finally:
                sys.settrace(None)
            status = 0
        except KeyboardInterrupt:
            status = 130
            exc = ["KeyboardInterrupt", ""]
        except SystemExit as e:
            status = _exit_status(e.code)
            exc = ["SystemExit", str(e.code)]
        except BaseException as e:  # noqa: BLE001 - uncaught exception of the simulated process
            status = 1
            exc = [type(e).__name__, _ADDR_RE.sub("0x?", str(e))[:300]]
        # interpreter finalisation: leaked file objects are closed, then stdout is flushed
        gc.collect()
        for o in list(fs.open_objs):
            try:
                if not o.closed:
                    o.close()
            except BaseException:  # noqa: BLE001
                pass
        try:
            sys.stdout.flush()
        except BaseException:  # noqa: BLE001
            status = 120
    finally:
        out_obj = sys.stdout
        sys.argv, sys.stdout, sys.stderr = old
        sys.stdin = old_stdin
        _warnings.filters[:] = saved_filters
        patches.uninstall()
    del out_obj
    return {
        "status": status, "exc": exc, "stdout": bytes(fs.stdout_bytes).hex(), "stderr": err.getvalue()[-1500:],
        "initial": initial, "final": fs.snapshot(keep), "history": fs.history, "mutations": fs.mutations,
        "fired": fs.fired, "passthrough": fs.passthrough, "points": fs.seq, "main_lines": main_lines[0],
    }


def child_exp(arg) -> dict:
    """Reference: the library call on the decoded contents with a new option object, first and
    only call of a fresh fork; plus the behaviour of script and translation when evaluated."""
    import random

    import oneliner
    from oneliner.config import Configs

    text, model, do_eval = arg["text"], arg["model"], arg.get("eval", False)
    random.seed(PRNG_ALIGN)
    o = Configs()
    try:
        for n in OPTION_NAMES:
            if n in model:
                setattr(o, n, as_value(model[n]))
        conv = oneliner.convert_code_string(text, configs=o)
    except BaseException as e:  # noqa: BLE001
        return {"out": "exc", "exc": [type(e).__name__, _ADDR_RE.sub("0x?", str(e))[:300]]}
    res = {"out": "ok", "sha": sha_text(normalise(conv)), "raw_sha": sha_text(conv), "len": len(conv)}
    res["enc_ok"] = {}
    for enc in STDOUT_ENCODINGS:
        try:
            (conv + "\n").encode(enc)
            res["enc_ok"][enc] = True
        except UnicodeEncodeError:
            res["enc_ok"][enc] = False
    res["utf8"] = res["enc_ok"]["utf-8"]
    res["single_line"] = "\n" not in conv and "\r" not in conv
    if do_eval:
        a, b = _behaviour(text, "exec"), _behaviour(conv, "eval")
        res["eval"] = a == b
        if a != b:
            if a[0] != "ok" or b[0] != "ok":
                res["eval_class"] = "raises"
                res["eval_names"] = ["script=" + (a[0] if a[0] == "ok" else str(a[1])), "translation=" + (b[0] if b[0] == "ok" else str(b[1]))]
            elif a[1] != b[1]:
                res["eval_class"] = "stdout-differs"
                res["eval_names"] = []
            else:
                ga, gb = a[2], b[2]
                missing = sorted(k for k in ga if k not in gb)
                extra = sorted(k for k in gb if k not in ga)
                differs = sorted(k for k in ga if k in gb and ga[k] != gb[k])
                res["eval_class"] = "globals-differ"
                res["eval_names"] = ["missing=" + ",".join(missing), "extra=" + ",".join(extra), "differs=" + ",".join(differs)]
            res["eval_detail"] = [a, b]
    return res


def _behaviour(code: str, mode: str):
    """stdout text + user globals of running `code` in a fresh namespace."""
    buf = io.StringIO()

    def _print(*a, **k):
        k.pop("file", None)
        print(*a, file=buf, **k)

    g = {"print": _print, "__name__": "__main__"}
    try:
        if mode == "exec":
            exec(compile(code, "<script>", "exec"), g)
        else:
            eval(compile(code, "<oneliner>", "eval"), g)
    except BaseException as e:  # noqa: BLE001
        return ["raised", type(e).__name__, _ADDR_RE.sub("0x?", str(e))[:200]]
    out = {}
    for k in sorted(g):
        if k.startswith("__") or k in ("print", "itertools", "importlib"):
            continue
        v = g[k]
        if isinstance(v, (int, float, str, bytes, bool, type(None), list, tuple, dict, set, complex)):
            try:
                out[k] = repr(v) if "at 0x" not in repr(v) else type(v).__name__
            except Exception:
                out[k] = type(v).__name__
        else:
            out[k] = "<" + type(v).__name__ + ">"
    return ["ok", buf.getvalue(), out]


# ------------------------------------------------------------------------------------------
# generator of base cases
# ------------------------------------------------------------------------------------------


def _valid_item(rng):
    name = rng.choice(OPTION_NAMES)
    return {"cls": "valid", "name": name, "value": rng.choice(OPTION_SPACE[name])}


def _invalid_item(rng, attr_names=None):
    c = rng.random()
    if c < 0.34:
        k = rng.random()
        if k < 0.5:
            name = rng.choice(attr_names or ATTR_NAMES)
        elif k < 0.8:
            name = rng.choice(["zz%d" % rng.randint(0, 99), "unparse", "unparser2", "wrapper", "style", "un parser", "-", "\u00fcnparser",
                               " unparser", "unparser ", "Unparser", "UNPARSER", "if-style", "if_style\n", "expr_wrapper\t"])
        else:
            name = ""
        return {"cls": "unknown_name", "name": name, "value": rng.choice(["oneliner", "list", "x", ""])}
    if c < 0.56:
        return {"cls": "malformed", "raw": rng.choice(["unparser", "unparser=oneliner=x", "", "if_style", "a=b=c", "==", "unparser=oneliner="])}
    if c < 0.84:
        name = rng.choice(OPTION_NAMES)
        others = [v for n in OPTION_NAMES if n != name for v in OPTION_SPACE[n]]
        # validation is "through the option descriptors": a value the descriptor rejects is illegal,
        # including white-space and case variants of a legal one
        legal = rng.choice(OPTION_SPACE[name])
        near = [legal + "\n", " " + legal, legal + " ", legal.upper(), legal.capitalize(), legal + "\t", "\n" + legal, legal + "\r\n",
                legal[:-1], legal + "x", "'" + legal + "'"]
        value = rng.choice(["bogus", "", "1", "None", "ast", "true"] + others + near)
        return {"cls": "illegal_value", "name": name, "value": value}
    if c < 0.92:
        return {"cls": "bad_legacy", "value": rng.choice(["bogus", "", "one", "list"])}
    return {"cls": rng.choice(["dangling_C", "dash_value"])}


def _spell(item, rng) -> list:
    cls = item["cls"]
    if cls in ("valid", "unknown_name", "illegal_value"):
        arg = "%s=%s" % (item["name"], item["value"])
    elif cls == "malformed":
        arg = item["raw"]
    elif cls == "legacy":
        return ["--unparser", item["value"]] if rng.random() < 0.7 else ["--unparser=" + item["value"]]
    elif cls == "bad_legacy":
        return ["--unparser", item["value"]]
    elif cls == "dangling_C":
        return ["-C"]  # must be placed last
    elif cls == "dash_value":
        return ["-C", "-x=1"]
    else:
        raise ValueError(cls)
    if arg == "" or arg.startswith("-") or rng.random() < 0.5:
        return ["-C", arg]
    return ["-C" + arg]


def introspect_attr_names() -> list:
    """Every attribute name of an option object (of the working tree) that is not one of the three
    options: `-C <such a name>=x` must be rejected like any other unknown name."""
    try:
        from oneliner.config import Configs

        names = set(dir(Configs)) | set(vars(Configs)) | set(getattr(Configs, "config_names", ()) or ())
        names = {n for n in names if isinstance(n, str) and n not in OPTION_NAMES and "=" not in n and n}
        return sorted(names)
    except Exception:
        return list(ATTR_NAMES)


def gen_base(seed: int, attr_names=None) -> dict:
    rng = _random.Random(seed)
    # ---- input -----------------------------------------------------------------------
    in_kind = rng.choice(["pool"] * 13 + ["special"] * 5 + ["absent", "dir", "unreadable"])
    in_fifo = in_kind == "pool" and rng.random() < 0.08  # named pipe / process substitution: readable, not a regular file
    in_path = rng.choice(["in.py", "in.py", "src/main.py", "\u00e9ntr\u00e9e.py", "in[1].py", "my in.py", "./in.py", "@in.py", "src/../in2.py", "~/in.py", "-"])
    out_path = rng.choice(["out.txt", "out.txt", "build/out.py", "r\u00e9sultat.txt", "out[1].txt", "my out.txt", "./out.txt",
                           "build/../out2.txt", "~out.txt", "out.txt~", "~/out.txt", "0", "None"])
    files, dirs, ro, unreadable = {}, set(), [], []
    links: dict = {}
    out_key = None
    for p in (in_path, out_path):
        if "/" in p:
            dirs.add(p.rsplit("/", 1)[0])
            if ".." in p:
                dirs.add(p.split("/", 1)[0])
    prog = variant = special = None
    in_state = "present"
    if in_kind == "pool":
        prog = rng.choice(sorted(CLI_POOL))
        variant = rng.choice(VARIANT_KINDS)
        files[in_path] = make_input_bytes(prog, variant)
    elif in_kind == "special":
        special = rng.choice(sorted(SPECIAL_INPUTS))
        files[in_path] = SPECIAL_INPUTS[special]
    elif in_kind == "absent":
        in_state = "absent"
    elif in_kind == "dir":
        in_state = "dir"
        dirs.add(in_path)
    elif in_kind == "unreadable":
        in_state = "unreadable"
        prog = "hello"
        files[in_path] = CLI_POOL["hello"].encode()
        unreadable.append(in_path)
    files["other.txt"] = b"do not touch\n"
    if rng.random() < 0.25:
        # decoy configuration files: nothing but the command line may select options
        decoy = rng.choice(["pyproject.toml", ".onelinerrc", "oneliner.cfg", "setup.cfg", "home/.onelinerrc", "home/.config/oneliner.toml",
                            "oneliner.toml", ".oneliner.json"])
        if "/" in decoy:
            d0 = decoy.rsplit("/", 1)[0]
            dirs.add(d0)
            if "/" in d0:
                dirs.add(d0.split("/", 1)[0])
        files[decoy] = (b'[tool.oneliner]\nunparser = "oneliner"\nexpr_wrapper = "list"\nif_style = "short_circuit"\n'
                        b'[oneliner]\nunparser = oneliner\nexpr_wrapper = list\nif_style = short_circuit\n'
                        if not decoy.endswith(".json") else b'{"unparser": "oneliner", "expr_wrapper": "list", "if_style": "short_circuit"}')
    # ---- output mode and initial state of OUT -----------------------------------------
    out_mode = rng.choice(["-o", "-o", "--output", "stdout", "stdout", "-oATTACHED", "--output="])
    out_state = "n/a"
    if out_mode != "stdout":
        out_state = rng.choice(["absent", "absent", "absent", "shorter", "shorter", "longer", "longer", "same_as_in", "same_as_in",
                                "missing_dir", "missing_dir", "is_dir", "is_dir", "not_writable", "not_writable", "ro_dir", "ro_dir",
                                "empty_name", "symlink_longer", "symlink_longer", "symlink_dangling", "via_dir_symlink"])
        if out_state == "shorter":
            # (what OUT held before is arbitrary: text, Latin-1 text, binary)
            files[out_path] = rng.choice([b"old", b"old", b"\xe9t\xe9 en latin-1", b"\x00\x01\xff\xfe bin"])
        elif out_state == "longer":
            n_old = rng.choice([5000, 20000])
            files[out_path] = rng.choice([b"#" * n_old, b"#" * n_old, b"\xff\xfe" + b"\xe9\x00" * (n_old // 2)])
        elif out_state == "same_as_in":
            # the same file, sometimes through a different spelling
            out_path = rng.choice([in_path, in_path, "./" + in_path, "zz/../" + in_path, CWD + "/" + in_path.lstrip("./")])
            if out_path.startswith("zz/"):
                dirs.add("zz")
        elif out_state == "missing_dir":
            out_path = "nodir/out.txt"
        elif out_state == "is_dir":
            dirs.add(out_path)
        elif out_state == "not_writable":
            files[out_path] = b"precious"
            ro.append(out_path)
        elif out_state == "empty_name":
            out_path = ""
        elif out_state in ("symlink_longer", "symlink_dangling"):
            # OUT is a symbolic link; reading OUT afterwards must yield the text whichever way it is written
            links[out_path] = "real_target.txt"
            if out_state == "symlink_longer":
                files["real_target.txt"] = b"%" * 7000
        elif out_state == "via_dir_symlink":
            # OUT is spelled through a symbolic link to a directory followed by '..': the kernel resolves
            # the link first (-> real/out3.txt); a lexical normalisation (abspath/normpath) names ./out3.txt
            out_path = "lnk/../out3.txt"
            out_key = "real/out3.txt"
            dirs.update(["real", "real/sub"])
            links["lnk"] = "real/sub"
            if rng.random() < 0.7:
                files[out_key] = rng.choice([b"old", b"=" * 9000])
        elif out_state == "ro_dir":
            out_path = "rodir/out.txt"
            dirs.add("rodir")
            ro.append("rodir")
    # ---- option items ----------------------------------------------------------------
    items = []
    n_valid = rng.choice([0, 0, 1, 1, 2, 3, 4])
    chosen: dict[str, str] = {}
    contradict = rng.random() < 0.12  # the same option with different values: ambiguous, judged permissively
    for _ in range(n_valid):
        it = _valid_item(rng)
        if it["name"] in chosen and not contradict:
            it["value"] = chosen[it["name"]]  # repeated only with the same value
        chosen[it["name"]] = it["value"]
        items.append(it)
    if rng.random() < 0.15:
        v = chosen.get("unparser") or rng.choice(OPTION_SPACE["unparser"])
        if contradict:
            v = rng.choice(OPTION_SPACE["unparser"])
        chosen["unparser"] = v
        items.append({"cls": "legacy", "value": v})
    n_invalid = rng.choice([0, 0, 0, 0, 1, 1, 1, 2])
    for _ in range(n_invalid):
        items.append(_invalid_item(rng, attr_names))
    rng.shuffle(items)
    dangling = [it for it in items if it["cls"] == "dangling_C"]
    items = [it for it in items if it["cls"] != "dangling_C"] + dangling[:1]
    # ---- argv parts (kept as parts so the shrinker can drop items) --------------------------
    parts = [{"kind": "item", "item": it, "argv": _spell(it, rng)} for it in items if it["cls"] != "dangling_C"]
    parts.append({"kind": "in", "argv": [in_path]})
    if out_path == "" and out_mode == "-oATTACHED":
        out_mode = "-o"  # "-o" + "" would be a dangling -o
    if out_mode in ("-o", "--output"):
        parts.append({"kind": "out", "argv": [out_mode, out_path]})
    elif out_mode == "-oATTACHED":
        parts.append({"kind": "out", "argv": ["-o" + out_path]})
    elif out_mode == "--output=":
        parts.append({"kind": "out", "argv": ["--output=" + out_path]})
    rng.shuffle(parts)
    if dangling:
        parts.append({"kind": "item", "item": dangling[0], "argv": ["-C"]})
    roles = {in_path: "IN"}
    if out_mode != "stdout":
        roles[out_key or out_path] = "OUT" if out_path != in_path else "IN"
    knobs = {
        "buffer_size": rng.choice([8192, 8192, 1, 7, 64, 300]),
        "stdout_buffer": rng.choice([8192, 16, 200]),
        "stdout_line_buffered": rng.random() < 0.3,
        "locale": rng.choice(["utf-8", "latin-1", "ascii"]),
        "stdout_encoding": rng.choice(["utf-8", "utf-8", "utf-8", "ascii", "latin-1", "cp1252"]),
        "stdout_isatty": rng.random() < 0.25,
        "stderr_closed": rng.random() < 0.1,  # the process was started with descriptor 2 closed: sys.stderr is None
        "warnings_error": rng.random() < 0.1,  # python -W error / PYTHONWARNINGS=error
    }
    return materialise({
        "prop": "C16", "seed": seed, "parts": parts, "out_mode": "stdout" if out_mode == "stdout" else "file",
        "in_path": in_path, "out_path": None if out_mode == "stdout" else out_path, "in_state": in_state,
        "out_state": out_state, "out_key": out_key, "prog": prog, "variant": variant, "special": special,
        "fs": {"files": {p: files[p].hex() for p in sorted(files)}, "dirs": sorted(dirs), "ro": ro, "unreadable": unreadable,
               "fifos": [in_path] if in_fifo and out_state != "same_as_in" else [], "links": links},
        "roles": roles, "knobs": knobs, "plan": [],
    })


def follow_up(base: dict, res: dict, seed: int):
    """A second invocation on the file tree the first one left behind (same OUT): the result of
    run 2 must not depend on what run 1 wrote.  Returns a new base descriptor or None."""
    if res["status"] != 0 or base["in_state"] != "present":
        return None
    if any(it["cls"] in INVALID_CLASSES for it in base["items"]) or base["out_state"] in ("same_as_in", "via_dir_symlink"):
        return None
    rng = _random.Random(derive_seed(seed, "followup"))
    if base["out_mode"] == "stdout":
        # `python -m oneliner in.py > out.txt` earlier, now `-o out.txt`: OUT holds the same result
        # plus the newline print() added (or other surrounding white space): it must be rewritten
        if base["knobs"].get("stdout_encoding", "utf-8") != "utf-8" or not res["stdout"]:
            return None
        d = {k: base[k] for k in ("prop", "in_path", "in_state", "knobs", "prog", "variant", "special")}
        d["seed"] = seed
        d["plan"] = []
        d["out_mode"] = "file"
        d["out_path"] = "out.txt" if SimFS.norm(base["in_path"]) != SimFS.norm("out.txt") else "out2.txt"
        prev = bytes.fromhex(res["stdout"])
        kind = rng.choice(["redirected_stdout", "redirected_stdout", "padded_result", "crlf_result"])
        if kind == "padded_result":
            prev = b"\n  " + prev.rstrip(b"\n") + b" \n\n"
        elif kind == "crlf_result":
            prev = prev.rstrip(b"\n") + b"\r\n"
        d["followup"] = kind
        d["invocation"] = 1
        files = dict(base["fs"]["files"])
        files[d["out_path"]] = prev.hex()
        d["fs"] = {"files": files, "dirs": list(base["fs"]["dirs"]), "ro": [], "unreadable": [],
                   "mtimes": {base["in_path"]: 1000.0, d["out_path"]: 200000.0}}
        d["roles"] = dict(base["roles"], **{d["out_path"]: "OUT"})
        d["out_state"] = "longer"
        d["parts"] = list(base["parts"]) + [{"kind": "out", "argv": ["-o", d["out_path"]]}]
        return materialise(d)
    d = {k: base[k] for k in ("prop", "out_mode", "in_path", "out_path", "in_state", "roles", "knobs")}
    d["seed"] = seed
    d["plan"] = []
    files = {}
    base_by_norm = {SimFS.norm(k): v for k, v in base["fs"]["files"].items()}
    for pth, h in res["final"]["files"].items():
        rel = pth[len(CWD) + 1:] if pth.startswith(CWD + "/") else pth
        if h.startswith("#sha256:"):
            # a large file represented by its digest: it can only be an untouched input
            if res["initial"]["files"].get(pth) != h or pth not in base_by_norm:
                return None
            h = base_by_norm[pth]
        files[rel] = h
    # keep the caller's spelling of IN as key
    in_norm = SimFS.norm(base["in_path"])
    files = {(base["in_path"] if SimFS.norm(k) == in_norm else k): v for k, v in files.items()}
    kind = rng.choice(["same", "other_options", "other_options", "other_program_older", "other_program_newer", "invalid_item"])
    d["followup"] = kind
    mt = {base["in_path"]: 1000.0, base["out_path"]: 200000.0}
    prog, variant, special = base["prog"], base["variant"], base["special"]
    items = [p for p in base["parts"] if p["kind"] == "item"]
    fixed = [p for p in base["parts"] if p["kind"] != "item"]
    if kind in ("other_options", "invalid_item"):
        items = []
        for _ in range(rng.choice([0, 1, 2, 3])):
            it = _valid_item(rng)
            if any(p["item"].get("name") == it["name"] for p in items):
                continue
            items.append({"kind": "item", "item": it, "argv": _spell(it, rng)})
        if kind == "invalid_item":
            it = _invalid_item(rng)
            if it["cls"] != "dangling_C":
                items.append({"kind": "item", "item": it, "argv": _spell(it, rng)})
            else:
                items.append({"kind": "item", "item": {"cls": "malformed", "raw": "unparser"}, "argv": ["-Cunparser"]})
    elif kind.startswith("other_program"):
        prog = rng.choice(sorted(CLI_POOL))
        variant, special = "plain", None
        files[base["in_path"]] = make_input_bytes(prog, "plain").hex()
        mt[base["in_path"]] = 1000.0 if kind.endswith("older") else 900000.0
    d["parts"] = fixed + items
    d["prog"], d["variant"], d["special"] = prog, variant, special
    # files the first run created next to OUT (a backup, a lock) are not part of the original tree:
    # the second run may reuse or overwrite them
    d["debris"] = sorted(SimFS.norm(k) for k in files if SimFS.norm(k) not in base_by_norm)
    d["invocation"] = 1
    d["out_state"] = "longer"  # pre-existing, arbitrary length relative to the new result
    d["fs"] = {"files": files, "dirs": list(base["fs"]["dirs"]), "ro": [], "unreadable": [], "mtimes": mt}
    return materialise(d)


def restart_after_failure(base: dict, failed: dict, res: dict, seed: int, idx: int):
    """Crash / failure, then restart: a fault-injected run failed and left something behind (a
    partial OUT, a temporary, a lock or backup file).  A second, fault-free invocation on that tree
    - the same command line again, or a short program to the same OUT - must again satisfy the
    property, whatever debris the first one left."""
    if base["out_mode"] != "file" or base["in_state"] != "present" or res["status"] == 0 or not res["mutations"]:
        return None
    if any(it["cls"] in INVALID_CLASSES for it in base["items"]) or base["out_state"] not in ("absent", "shorter", "longer"):
        return None
    if base["fs"].get("fifos") or base["fs"].get("links"):
        return None
    rng = _random.Random(derive_seed(seed, "restart", idx))
    d = {k: base[k] for k in ("prop", "out_mode", "in_path", "out_path", "in_state", "roles", "knobs", "parts")}
    d["seed"] = seed
    d["plan"] = []
    files = {}
    base_by_norm = {SimFS.norm(k): v for k, v in base["fs"]["files"].items()}
    in_norm = SimFS.norm(base["in_path"])
    for pth, h in res["final"]["files"].items():
        rel = pth[len(CWD) + 1:] if pth.startswith(CWD + "/") else pth
        if h.startswith("#sha256:"):
            if res["initial"]["files"].get(pth) != h or pth not in base_by_norm:
                return None
            h = base_by_norm[pth]
        files[base["in_path"] if SimFS.norm(rel) == in_norm else rel] = h
    kind = rng.choice(["same_command", "short_program", "short_program"])
    prog, variant, special = base["prog"], base["variant"], base["special"]
    if kind == "short_program":
        prog, variant, special = rng.choice(["hello", "arith", "ifelse"]), "plain", None
        files[base["in_path"]] = make_input_bytes(prog, "plain").hex()
    # what the failed run left behind (not part of the original tree) may be cleaned up, reused or
    # overwritten by the second run: only files of the original tree are protected
    d["debris"] = sorted(SimFS.norm(k) for k in files if SimFS.norm(k) not in base_by_norm)
    d["invocation"] = 1
    d["followup"] = "restart_after_failure:" + kind
    d["prog"], d["variant"], d["special"] = prog, variant, special
    d["out_state"] = "longer"
    dirs = sorted({posixpath.dirname(k) for k in files if "/" in k and not k.startswith("/")} | set(base["fs"]["dirs"]))
    d["fs"] = {"files": files, "dirs": [x for x in dirs if x], "ro": [], "unreadable": [], "mtimes": {}}
    return materialise(d)


def materialise(desc: dict) -> dict:
    """argv and the typed item list are functions of the parts."""
    desc["argv"] = [a for p in desc["parts"] for a in p["argv"]]
    desc["items"] = [p["item"] for p in desc["parts"] if p["kind"] == "item"]
    return desc


FAULT_KINDS = {
    "open": ["ENOENT", "EACCES", "ENOSPC", "EMFILE", "EIO", "ESTALE"],
    "read": ["short", "EIO", "EINTR", "ESTALE"],
    "write": ["short", "ENOSPC", "EIO", "EDQUOT", "EINTR", "EAGAIN", "ESTALE"],
    "close": ["EIO", "ENOSPC"],
    "rename": ["EACCES", "ENOSPC", "EBUSY", "EXDEV"],
    "unlink": ["EACCES", "EBUSY"],
}
# kinds that are also injected as a persistent condition (every later call of that kind on that file
# fails too): a full disk stays full, a stale handle stays stale
PERSISTENT_KINDS = {"open": ["EACCES", "ESTALE"], "write": ["ENOSPC", "ESTALE", "EAGAIN"], "read": ["EIO"], "close": []}
BENIGN = ("short", "EINTR")


def fault_points(result: dict) -> list:
    """(seq, op, role) of every fault point hit by a run."""
    pts = []
    seen = set()
    for seq, op, role, a, res in result["history"]:
        if op in FAULT_KINDS and seq not in seen:
            seen.add(seq)
            pts.append((seq, op, role))
    return pts


def single_fault_plans(result: dict, desc: dict | None = None) -> list:
    plans = []
    # short reads that end exactly after a carriage return of a CR LF pair (hand-rolled newline
    # translation over blocks), at up to 8 such offsets of the input
    cr_offsets = []
    if desc is not None and desc.get("in_state") == "present":
        try:
            data = bytes.fromhex(desc["fs"]["files"][desc["in_path"]])
            cr_offsets = [i + 1 for i in range(len(data) - 1) if data[i:i + 2] == b"\r\n"]
            if len(cr_offsets) > 8:
                step = len(cr_offsets) / 8.0
                cr_offsets = [cr_offsets[int(j * step)] for j in range(8)]
        except (KeyError, ValueError):
            cr_offsets = []
    first_in_read = True
    for seq, op, role in fault_points(result):
        kinds = list(FAULT_KINDS[op])
        if role == "STDOUT" and op == "write":
            kinds.append("EPIPE")
            kinds.append("WOULDBLOCK")  # stdout is a non-blocking pipe that is full: the raw write returns None
        for k in kinds:
            f = {"at": seq, "op": op, "kind": k}
            if k == "short":
                plans.append([dict(f, n=1)])
                plans.append([dict(f, n=1 << 20)])  # all but one byte
                if op == "read" and role == "IN" and first_in_read:
                    first_in_read = False
                    for off in cr_offsets:
                        plans.append([dict(f, n=off)])
            else:
                plans.append([f])
                if k in PERSISTENT_KINDS.get(op, ()):
                    plans.append([dict(f, persist=True)])
                if op == "close" and role == "OUT":
                    plans.append([dict(f, lose=True)])  # deferred write error: data never hit the disk
    return plans


# ------------------------------------------------------------------------------------------
# oracle
# ------------------------------------------------------------------------------------------

INVALID_CLASSES = ("unknown_name", "malformed", "illegal_value", "bad_legacy", "dangling_C", "dash_value")


def expected_model(items) -> dict:
    m = {}
    for it in items:
        if it["cls"] == "valid":
            m[it["name"]] = it["value"]
        elif it["cls"] == "legacy":
            m["unparser"] = it["value"]
    return m


def candidate_models(items) -> list:
    """All option assignments a reasonable command line may derive from the items.  When no option
    is given two different values there is exactly one; when an option is given contradictory
    values (which one wins is a policy the statement does not fix) every choice is a candidate."""
    vals: dict[str, list] = {}
    for it in items:
        if it["cls"] == "valid":
            vals.setdefault(it["name"], [])
            if it["value"] not in vals[it["name"]]:
                vals[it["name"]].append(it["value"])
        elif it["cls"] == "legacy":
            vals.setdefault("unparser", [])
            if it["value"] not in vals["unparser"]:
                vals["unparser"].append(it["value"])
    out = [{}]
    for n in OPTION_NAMES:
        if n in vals:
            out = [dict(m, **{n: v}) for m in out for v in vals[n]]
    return out


class C16Ctx:
    def __init__(self, tpl):
        self.tpl = tpl
        self.exp_cache: dict[str, dict] = {}
        self.attr_names = fork_run(lambda _: introspect_attr_names(), None)

    def exp(self, data: bytes, model: dict, do_eval: bool) -> dict:
        key = sha_text(data.hex())[:20] + "@" + cjson(model) + ("E" if do_eval else "")
        r = self.exp_cache.get(key)
        if r is None:
            text = decode_like_cli(data)
            if text is None:
                r = {"out": "undecodable"}
            else:
                r = fork_run(child_exp, {"text": text, "model": model, "eval": do_eval})
            self.exp_cache[key] = r
        return r


def judge(ctx: C16Ctx, desc: dict, res: dict) -> list:
    """Oracles P1-P4 over one simulated process.  Returns violations (possibly empty)."""
    V = []

    def viol(oracle, cls, **kw):
        d = {"oracle": oracle, "class": cls}
        d.update(kw)
        V.append(d)

    fsd = desc["fs"]
    initial, final = res["initial"], res["final"]
    status = res["status"]
    in_p = SimFS.norm(desc["in_path"])
    out_p = SimFS.norm(desc.get("out_key") or desc["out_path"]) if desc["out_path"] else None
    fired = res["fired"]
    error_fault = any(f["kind"] not in BENIGN for f in fired)
    if desc["knobs"].get("warnings_error") and any(it["cls"] == "legacy" for it in desc["items"]):
        # the user asked for warnings to be errors and used the deprecated flag: failing is fine
        # (exit 0 must still mean the right text)
        error_fault = True
    has_invalid = any(it["cls"] in INVALID_CLASSES for it in desc["items"])
    if res["passthrough"]:
        # the simulated process opened a real path through builtins.open: outside the model
        viol("MODEL", "real-file-opened", paths=res["passthrough"][:3])

    changed = sorted(p for p in set(initial["files"]) | set(final["files"]) if initial["files"].get(p) != final["files"].get(p))
    mutated_paths = sorted({m[3] for m in res["mutations"]})

    if has_invalid:
        # P3: error, and no event that creates / truncates / opens-for-write / renames / unlinks
        if status == 0:
            viol("P3", "invalid-option-accepted", status=status)
        if res["mutations"]:
            viol("P3", "output-touched-before-validation", mutations=res["mutations"][:4])
        elif changed:
            viol("P3", "fs-changed-despite-invalid-option", changed=changed)
        return V

    # (valid option list) other paths are judged by their END state only, so that refactors that
    # go through a temporary file and rename it are not punished
    if desc["in_state"] != "present":
        return V  # not gated: the statement quantifies over input files that exist
    data = bytes.fromhex(fsd["files"][desc["in_path"]])
    cands = candidate_models(desc["items"])
    ambiguous = len(cands) > 1
    exps = [ctx.exp(data, m, do_eval=True) for m in cands]
    exp = exps[0]
    if ambiguous:
        # contradictory values for one option: any candidate result is accepted, and so is refusing
        # the command line; only a successful run with a text that matches NO candidate is wrong
        if status == 0 and all(e["out"] == "ok" for e in exps):
            out_res = out_p
            for _ in range(8):
                if out_res in (final.get("links") or {}):
                    out_res = final["links"][out_res]
            raw = bytes.fromhex(res["stdout"]) if desc["out_mode"] == "stdout" else (
                bytes.fromhex(final["files"][out_res]) if out_res in final["files"] else None)
            good = False
            if raw is not None:
                try:
                    t = raw.decode(desc["knobs"].get("stdout_encoding", "utf-8") if desc["out_mode"] == "stdout" else "utf-8")
                    shas = {e["sha"] for e in exps}
                    good = sha_text(normalise(t)) in shas or (desc["out_mode"] == "stdout" and t.endswith("\n")
                                                               and sha_text(normalise(t[:-1])) in shas)
                except UnicodeDecodeError:
                    good = False
            if not good and not error_fault:
                viol("P1", "exit0-but-text-matches-no-candidate-option-set", candidates=len(cands))
        return V
    if exp["out"] == "exc":
        # the library call raises for these contents: there is no text to write, so a run that
        # reports success has written something the library did not return
        if status == 0:
            viol("P1", "exit0-but-library-raises", library_exc=exp["exc"])
        return V
    if exp["out"] != "ok":
        return V  # undecodable input: not gated (counted by the caller)
    if exp.get("eval") is False:
        viol("P2", exp.get("eval_class", "differs"), names=exp.get("eval_names"), prog=desc.get("prog"),
             detail=exp.get("eval_detail"))

    def text_ok(b: bytes, allow_newline: bool, enc: str = "utf-8"):
        try:
            t = b.decode(enc)
        except UnicodeDecodeError:
            return False, "not-utf8"
        if sha_text(normalise(t)) == exp["sha"]:
            return True, "exact"
        if allow_newline and t.endswith("\n") and sha_text(normalise(t[:-1])) == exp["sha"]:
            return True, "exact+newline"
        return False, "differs"

    if desc["out_mode"] == "stdout":
        changed_old = [p for p in changed if p in initial["files"]]
        if changed_old:
            viol("P1", "fs-changed-in-stdout-mode", changed=changed_old)
        senc = desc["knobs"].get("stdout_encoding", "utf-8")
        ok, how = text_ok(bytes.fromhex(res["stdout"]), True, senc)
        if status == 0 and not ok:
            viol("P4" if fired else "P1", "exit0-but-stdout-" + how, fired=fired, stdout_encoding=senc)
        # a result the terminal encoding cannot represent cannot be printed exactly: failing is
        # then the only correct outcome (exit 0 with altered text is caught just above)
        printable = exp.get("enc_ok", {}).get(senc, True)
        if status != 0 and not error_fault and printable:
            viol("P4" if fired else "P1", "failed-without-error-fault", status=status, exc=res["exc"], fired=fired)
        return V

    # exit 0 always claims that OUT holds the text; when OUT cannot be created as things stand
    # (missing directory, a directory, read-only) failing is permitted, and succeeding is fine only
    # if OUT really holds the text afterwards (e.g. the directory was created, or the read-only
    # file was replaced by a rename)
    creatable = desc["out_state"] in ("absent", "shorter", "longer", "same_as_in", "symlink_longer", "symlink_dangling")
    out_real = out_p
    for _ in range(8):
        if out_real in (final.get("links") or {}):
            out_real = final["links"][out_real]
    out_bytes = bytes.fromhex(final["files"][out_real]) if out_real in final["files"] else None
    ok, how = (False, "missing") if out_bytes is None else text_ok(out_bytes, False)
    if status == 0 and not ok:
        viol("P4" if fired else "P1", "exit0-but-output-" + how, fired=fired, out_state=desc["out_state"])
    if status != 0 and not error_fault and creatable:
        viol("P4" if fired else "P1", "failed-without-error-fault", status=status, exc=res["exc"], fired=fired)
    # files that existed before and are not OUT must be unchanged; new files next to OUT (a
    # backup, a lock file) are not forbidden by the statement
    link_targets = set((initial.get("links") or {}).values())
    debris = set(desc.get("debris") or [])
    others = [p for p in changed if p != out_p and p in initial["files"] and p not in debris
              and not (p in link_targets and desc["out_state"].startswith("symlink"))]
    if others:
        viol("P1", "other-file-changed", paths=others)
    return V


def case_class(desc: dict) -> str:
    cl = sorted({it["cls"] for it in desc["items"]}) or ["none"]
    return "%s|%s|in=%s|out=%s" % (",".join(cl), desc["out_mode"], desc["special"] or desc["in_state"], desc["out_state"])


def io_trace_key(res: dict) -> str:
    return digest([[op, role, (r if isinstance(r, str) else "n")] for _, op, role, _, r in res["history"]])[:16]


# ------------------------------------------------------------------------------------------
# handlers
# ------------------------------------------------------------------------------------------


def register(tpl):
    ctx = C16Ctx(tpl)
    tpl.c16 = ctx

    def run_one(desc):
        res = fork_run(child_cli, desc)
        return res, judge(ctx, desc, res)

    def h_check(req):
        res, V = run_one(req["desc"])
        out = {"violations": V, "digest": digest(res)}
        if req.get("events"):
            out["result"] = res
        return out

    def h_batch(req):
        agg = {"bases": 0, "runs": 0, "fault_runs": 0, "failures": [], "faults": {}, "probes": {}, "classes": {},
               "traces": [], "tuples": [], "samples": [], "digests": {}, "io_calls": 0, "byte_exact": 0, "ungated": {}}
        traces, tuples = set(), set()
        if "descs" in req:
            bases = [(d.get("seed", 0), materialise(d)) for d in req["descs"]]
        else:
            bases = [(sd, gen_base(sd, ctx.attr_names)) for sd in req["seeds"]]
        rngm = _random.Random(derive_seed(bases[0][0] if bases else 0, "multi"))

        def probe(name):
            agg["probes"][name] = agg["probes"].get(name, 0) + 1

        def account(desc, res, V, base_seed):
            agg["runs"] += 1
            agg["io_calls"] += len(res["history"])
            traces.add(io_trace_key(res))
            for f in res["fired"]:
                k = "%s:%s" % (f.get("op"), f["kind"])
                agg["faults"][k] = agg["faults"].get(k, 0) + 1
                tuples.add(digest([case_class(desc), k, f["at"]])[:16])
            if V:
                agg["failures"].append({"seed": base_seed, "desc": desc, "violations": V})

        for seed, base in bases:
            do_intr = bool(req.get("interrupts", True)) and req.get("faults", True) and seed % 3 == 0
            if do_intr:
                base = dict(base, trace_main=True)
            res, V = run_one(base)
            agg["bases"] += 1
            account(base, res, V, seed)
            cc = case_class(base)
            agg["classes"][cc] = agg["classes"].get(cc, 0) + 1
            tuples.add(digest([cc, "none", 0])[:16])
            run_digests = [digest([base, res])]
            # probes
            classes = [it["cls"] for it in base["items"]]
            inv = [c for c in classes if c in INVALID_CLASSES]
            if inv and any(c in ("valid", "legacy") for c in classes):
                probe("invalid_item_together_with_valid_ones")
            if inv and base["out_state"] in ("shorter", "longer", "not_writable"):
                probe("invalid_item_with_preexisting_OUT")
            if base["out_state"] == "same_as_in":
                probe("OUT_is_IN")
            if any(it["cls"] == "unknown_name" and it["name"] in ctx.attr_names for it in base["items"]):
                probe("attribute_name_used_as_option_name")
            if base["special"] in ("surrogate", "surrogate_pair_esc"):
                probe("result_with_lone_surrogate")
            if base["in_state"] != "present":
                agg["ungated"]["input_" + base["in_state"]] = agg["ungated"].get("input_" + base["in_state"], 0) + 1
            if len(agg["samples"]) < req.get("n_samples", 0):
                agg["samples"].append({"seed": seed, "argv": base["argv"], "class": cc, "knobs": base["knobs"],
                                       "status": res["status"], "exc": res["exc"],
                                       "io_history": [[op, role, r if isinstance(r, str) else "n=%s" % r] for _, op, role, _, r in res["history"]][:30]})
            if req.get("faults", True):
                plans = single_fault_plans(res, base)
                # seeded multi-fault plans (2-3 faults) on top of the exhaustive single-fault sweep
                singles = [p[0] for p in plans]
                for _ in range(min(req.get("multi", 3), len(singles) // 2)):
                    k = rngm.choice([2, 2, 3])
                    if len(singles) >= k:
                        plans.append(sorted(rngm.sample(singles, k), key=lambda f: f["at"]))
                if do_intr:
                    for k in range(1, res.get("main_lines", 0) + 1):
                        plans.append([{"at": 0, "op": "line", "kind": "SIGINT", "at_line": k}])
                want_fault_sample = len(agg["samples"]) <= req.get("n_samples", 0) and req.get("n_samples", 0) > 0
                restart_cands = []
                for plan in plans:
                    d2 = dict(base, plan=plan)
                    r2, V2 = run_one(d2)
                    if r2["status"] != 0 and r2["mutations"] and req.get("followups", True) and "seeds" in req:
                        # debris = bytes left in files that did not exist or were different before
                        debris = 0
                        for pth, h in r2["final"]["files"].items():
                            if r2["initial"]["files"].get(pth) != h:
                                debris += len(h) // 2 if not h.startswith("#") else 1 << 20
                        restart_cands.append((debris, len(restart_cands), d2, r2))
                    if want_fault_sample and r2["fired"] and r2["status"] != res["status"]:
                        want_fault_sample = False
                        agg["samples"].append({"seed": seed, "argv": base["argv"], "class": cc, "fault_plan": plan, "fired": r2["fired"],
                                               "status": r2["status"], "exc": r2["exc"], "status_without_fault": res["status"],
                                               "io_history": [[op, role, r if isinstance(r, str) else "n=%s" % r] for _, op, role, _, r in r2["history"]][:30]})
                    run_digests.append(digest([plan, r2]))
                    agg["fault_runs"] += 1
                    account(d2, r2, V2, seed)
                    if any(f["op"] == "close" for f in r2["fired"]):
                        probe("deferred_error_surfaced_at_close")
                    if any(f["kind"] == "short" and f["op"] == "write" for f in r2["fired"]):
                        probe("short_write_fired")
                    if any(f["kind"] == "EPIPE" for f in r2["fired"]):
                        probe("EPIPE_on_stdout")
                    if any(f["kind"] == "SIGINT" for f in r2["fired"]):
                        probe("interrupted_at_a_line_of_the_cli")
                        if any(m[2] == "OUT" for m in r2["mutations"]):
                            probe("interrupted_after_OUT_was_opened")
                    if inv and r2["fired"]:
                        probe("fault_during_invalid_option_run")
            if req.get("faults", True) and restart_cands:
                restart_cands.sort(key=lambda t: (-t[0], t[1]))
                chosen = restart_cands[:2] + restart_cands[-1:]
                seen_idx = set()
                for n_r, (debris, idx, d2, r2) in enumerate(chosen):
                    if idx in seen_idx:
                        continue
                    seen_idx.add(idx)
                    rs = restart_after_failure(base, d2, r2, seed, n_r)
                    if rs is None:
                        continue
                    r4, V4 = run_one(rs)
                    agg["followups"] = agg.get("followups", 0) + 1
                    run_digests.append(digest([rs["argv"], r4]))
                    account(rs, r4, V4, seed)
                    probe(rs["followup"])
            if req.get("followups", True) and "seeds" in req and seed % 2 == 1:
                fu = follow_up(base, res, seed)
                if fu is not None:
                    r3, V3 = run_one(fu)
                    agg["followups"] = agg.get("followups", 0) + 1
                    run_digests.append(digest([fu["argv"], r3]))
                    account(fu, r3, V3, seed)
                    probe("second_invocation_on_left_over_tree:" + fu["followup"])
            if req.get("want_digests"):
                agg["digests"][str(seed)] = digest(run_digests)
        agg["traces"] = sorted(traces)
        agg["tuples"] = sorted(tuples)
        return agg

    def h_gen(req):
        return gen_base(req["seed"], ctx.attr_names)

    def h_exp(req):
        return ctx.exp(bytes.fromhex(req["data"]), req["model"], req.get("eval", False))

    def h_judge(req):
        return {"violations": judge(ctx, materialise(req["desc"]), req["result"])}

    tpl.handlers.update({"c16_judge": h_judge, "c16_check": h_check, "c16_batch": h_batch, "c16_gen": h_gen, "c16_exp": h_exp})
