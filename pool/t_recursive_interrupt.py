print("=== For loop ===")

for i in range(20):
    if i % 2:
        continue
    print(i)
    if i % 3:
        continue
    print(i, i)
    if i % 5:
        continue
    print(i, i, i)

print("=== While loop ===")

i = -1
while i < 10:
    i = i + 1
    if i % 2:
        continue
    print(i)
    if i % 3:
        continue
    print(i, i)
    if i % 5:
        continue
    print(i, i, i)

print("=== If ===")

for i in range(20):
    if 1:
        if i % 2:
            continue
        print(i)
        if i % 3:
            continue
        print(i, i)
        if i % 5:
            continue
        print(i, i, i)

print("=== If-Else ===")

for i in range(20):
    if 0:
        pass
    else:
        if i % 2:
            continue
        print(i)
        if i % 3:
            continue
        print(i, i)
        if i % 5:
            continue
        print(i, i, i)

print("=== For-Else ===")

for i in range(20):
    for _ in []:
        pass
    else:
        if i % 2:
            continue
        print(i)
        if i % 3:
            continue
        print(i, i)
        if i % 5:
            continue
        print(i, i, i)

print("=== While-Else ===")

for i in range(20):
    while 0:
        pass
    else:
        if i % 2:
            continue
        print(i)
        if i % 3:
            continue
        print(i, i)
        if i % 5:
            continue
        print(i, i, i)
