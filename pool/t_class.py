class Foo:
    var1 = 0

    def __init__(self):
        print("hello class")
        self._var2 = "hello"

    @classmethod
    def get_foo(cls):
        print("hello classmethod")
        self = cls()
        self.var1 = 1
        return self

    @staticmethod
    def add(a, b):
        print("hello staticmethod")
        return a + b

    @property
    def var2(self):
        print("getting var2")
        return self._var2

    @var2.setter
    def var2(self, v):
        print(f"setting var2 to {v}")
        self._var2 = v


foo = Foo()
print(foo.var1)
foo_clsm = Foo.get_foo()
print(foo_clsm.var1)

print(foo.add(12, 34))

print(foo.var2)
foo.var2 = "hello world"
print(foo.var2)
