"""SimFS: an in-memory file tree whose ``open()`` returns the REAL io.TextIOWrapper /
io.BufferedReader / io.BufferedWriter stacked on a simulated raw layer (io.RawIOBase subclass).

Every raw-level call is appended to the run's I/O history and is a fault point: the fault plan
(part of the run descriptor) names the sequence number of the call to fail and how.
"""
from __future__ import annotations

import errno as _errno
import io
import os
import posixpath
import sys

ERRNO = {
    "ENOENT": _errno.ENOENT, "EACCES": _errno.EACCES, "EISDIR": _errno.EISDIR, "ENOSPC": _errno.ENOSPC,
    "EMFILE": _errno.EMFILE, "EIO": _errno.EIO, "EDQUOT": _errno.EDQUOT, "EPIPE": _errno.EPIPE,
    "EINTR": _errno.EINTR, "EEXIST": _errno.EEXIST, "ENOTDIR": _errno.ENOTDIR, "EROFS": _errno.EROFS,
    "EBADF": _errno.EBADF, "ESTALE": _errno.ESTALE, "EAGAIN": _errno.EAGAIN, "EBUSY": _errno.EBUSY,
    "ETIMEDOUT": _errno.ETIMEDOUT, "EXDEV": _errno.EXDEV, "WOULDBLOCK": _errno.EAGAIN,
}

CWD = "/sim"
DEV_NULL = "/dev/null"
# real top-level directories that must stay reachable (the interpreter, the repository, /dev/null ...)
REAL_TOP_LEVEL = {"/" + d for d in ("bin", "boot", "dev", "etc", "home", "lib", "lib32", "lib64", "libx32", "media", "mnt", "opt",
                                    "proc", "repo", "root", "run", "sbin", "srv", "sys", "usr", "var", "venv", "verif", "w")}
SIM_TMP = "/tmp"   # the temporary directory of the simulated process is a simulated directory too
FD_BASE = 7000


def _mkstat(mode, ino, nlink, size, mtime):
    """os.stat_result with the optional fields programs commonly read (st_blksize, st_blocks, st_rdev)."""
    return os.stat_result((mode, ino, 1, nlink, 0, 0, size, mtime, mtime, mtime),
                          {"st_blksize": 4096, "st_blocks": (size + 511) // 512, "st_rdev": 0,
                           "st_atime": float(mtime), "st_mtime": float(mtime), "st_ctime": float(mtime)})


def _oserror(name: str, path=None):
    code = ERRNO[name]
    return OSError(code, os.strerror(code), path)


class SimRaw(io.RawIOBase):
    def __init__(self, fs: "SimFS", path: str, role: str, readable: bool, writable: bool, append: bool):
        super().__init__()
        self.fs = fs
        self.path = path
        self.role = role
        self._r = readable
        self._w = writable
        self._append = append
        self.pos = 0
        self.name = path
        self.mode = ("r" if readable else "") + ("w" if writable else "") + "b"
        self.buf = fs.files.get(path) if role != "STDOUT" else None
        self._at_open = bytes(fs.files.get(path, b"")) if writable and role != "STDOUT" else b""

    # -- capabilities ----------------------------------------------------------------------
    def readable(self):
        return self._r

    def writable(self):
        return self._w

    def seekable(self):
        return self.role != "STDOUT" and self.path not in self.fs.fifos

    def isatty(self):
        return self.role == "STDOUT" and bool(self.fs.knobs.get("stdout_isatty", False))

    def fileno(self):
        # a simulated descriptor, usable with the patched os.fstat/os.read/os.write/...; never a
        # real one
        if self.role == "STDOUT":
            return 1  # routed back to this object by the patched os.write/os.fstat/os.isatty
        fd = getattr(self, "_fd_owned", None)
        if fd is None:
            fd = self.fs.next_fd
            self.fs.next_fd += 1
            self.fs.fds[fd] = self
            self._fd_owned = fd
        return fd

    # -- data ------------------------------------------------------------------------------
    def _data(self) -> bytearray:
        # a descriptor refers to the file object (inode), not to the name: a rename while the file
        # is open keeps the data flowing into the renamed file, an unlink detaches it
        if self.role == "STDOUT":
            return self.fs.stdout_bytes
        if self.buf is None:
            self.buf = self.fs.files.get(self.path)
            if self.buf is None:
                self.buf = bytearray()
        return self.buf

    def readinto(self, b):
        n_req = len(b)
        f = self.fs.fault("read", self.role, self.path, n_req)
        if f is not None:
            kind = f["kind"]
            if kind == "EINTR":
                # like the real FileIO (PEP 475) the raw layer retries an interrupted system call
                # itself: no caller ever sees EINTR, the transfer just happens on the second attempt
                f = None
            elif kind != "short":
                raise _oserror(kind, self.path)
        data = self._data()
        chunk = bytes(data[self.pos:self.pos + n_req])
        if f is not None and f["kind"] == "short" and len(chunk) > 1:
            chunk = chunk[:max(1, min(len(chunk) - 1, f.get("n", 1)))]
            self.fs.note_fired(f)
        n = len(chunk)
        b[:n] = chunk
        self.pos += n
        self.fs.record("read", self.role, self.path, n_req, n)
        return n

    def write(self, b):
        if getattr(self, "_redirect", None) is not None:
            return self._redirect.write(b)   # os.dup2(other, this descriptor) was called
        b = bytes(b)
        n_req = len(b)
        f = self.fs.fault("write", self.role, self.path, n_req)
        if f is not None:
            kind = f["kind"]
            if kind == "EINTR":
                pass  # retried inside the raw layer, like the real FileIO (PEP 475)
            elif kind == "WOULDBLOCK":
                return None  # what FileIO.write returns for EAGAIN on a non-blocking descriptor
            elif kind != "short":
                raise _oserror(kind, self.path)
            elif n_req > 1:
                b = b[:max(1, min(n_req - 1, f.get("n", 1)))]
                self.fs.note_fired(f)
        if self.path == DEV_NULL:
            self.fs.record("write", self.role, self.path, n_req, len(b))
            return len(b)
        data = self._data()
        if self._append:
            self.pos = len(data)
        if self.pos > len(data):
            data.extend(b"\0" * (self.pos - len(data)))
        data[self.pos:self.pos + len(b)] = b
        self.pos += len(b)
        self.fs.record("write", self.role, self.path, n_req, len(b))
        if self.role != "STDOUT":
            for pth, obj in self.fs.files.items():
                if obj is data:
                    self.fs.touch(pth)
        return len(b)

    def seek(self, offset, whence=0):
        if self.role == "STDOUT" or self.path in self.fs.fifos:
            raise io.UnsupportedOperation("not seekable")
        if whence == 0:
            self.pos = offset
        elif whence == 1:
            self.pos += offset
        else:
            self.pos = len(self._data()) + offset
        if self.pos < 0:
            self.pos = 0
        return self.pos

    def tell(self):
        return self.pos

    def truncate(self, size=None):
        if size is None:
            size = self.pos
        data = self._data()
        self.fs.record("truncate", self.role, self.path, size, size)
        self.fs.mutation("truncate", self.role, self.path)
        del data[size:]
        return size

    def close(self):
        if self.closed:
            return
        f = self.fs.fault("close", self.role, self.path, 0)
        fd = getattr(self, "_fd_owned", None)
        if fd is not None:
            self.fs.fds.pop(fd, None)
        super().close()
        self.fs.record("close", self.role, self.path, 0, 0)
        if f is not None:
            if f.get("lose") and self._w and self.role != "STDOUT" and self.buf is not None:
                # deferred write error (NFS, quota): what was written through this descriptor never
                # reached the disk
                self.buf[:] = self._at_open
            raise _oserror(f["kind"], self.path)


class SimRawView(io.RawIOBase):
    """What `open(fd, ..., closefd=False)` gives: a file object over an existing descriptor whose
    close() leaves the descriptor open.  Position and data are those of the descriptor."""

    def __init__(self, raw: SimRaw):
        super().__init__()
        self._raw = raw
        self.name = raw.name
        self.mode = raw.mode

    def readable(self):
        return self._raw.readable()

    def writable(self):
        return self._raw.writable()

    def seekable(self):
        return self._raw.seekable()

    def isatty(self):
        return self._raw.isatty()

    def fileno(self):
        return self._raw.fileno()

    def readinto(self, b):
        return self._raw.readinto(b)

    def write(self, b):
        return self._raw.write(b)

    def seek(self, offset, whence=0):
        return self._raw.seek(offset, whence)

    def tell(self):
        return self._raw.tell()

    def truncate(self, size=None):
        return self._raw.truncate(size)


class SimFS:
    """files: path -> bytearray; dirs: set of paths; ro: set of read-only paths (file or dir);
    unreadable: set of paths that cannot be opened for reading."""

    def __init__(self, files: dict, dirs, ro=(), unreadable=(), roles=None, plan=None, knobs=None):
        self.files = {self.norm(p): bytearray(v) for p, v in files.items()}
        self.dirs = {self.norm(d) for d in dirs} | {CWD, "/", SIM_TMP}
        self.ro = {self.norm(p) for p in ro} | {"/"}
        self.unreadable = {self.norm(p) for p in unreadable}
        self.roles = {self.norm(p): r for p, r in (roles or {}).items()}
        # the null device is part of the simulated tree (the documented BrokenPipeError idiom opens it
        # for writing and dup2()s it over stdout): reads give EOF, writes are discarded, nothing is logged
        self.files[DEV_NULL] = bytearray()
        self.dirs.add("/dev")
        self.plan = {int(f["at"]): f for f in (plan or [])}
        self.persistent: list = []
        self.knobs = knobs or {}
        self.history: list = []
        self.mutations: list = []
        self.fired: list = []
        self.detached: dict = {}
        self.stdout_bytes = bytearray()
        self.seq = 0
        self.open_objs: list = []
        self.passthrough: list = []
        self._inos: dict = {}        # id(file object) -> inode number (hard links share one)
        self.links: dict = {}        # symbolic links: path -> target path (both normalised)
        self.fifos: set = set()      # paths that are named pipes / process substitutions (readable, not regular)
        self.mtimes: dict = {}       # path -> logical modification time
        self.fds: dict = {}          # simulated descriptors (>= FD_BASE) -> SimRaw
        self.next_fd = FD_BASE

    # -- helpers ---------------------------------------------------------------------------
    @staticmethod
    def norm(p) -> str:
        p = os.fspath(p)
        if isinstance(p, bytes):
            p = p.decode("utf-8", "surrogateescape")
        if not p.startswith("/"):
            p = posixpath.join(CWD, p)
        return posixpath.normpath(p)

    def phys(self, p) -> str:
        """Kernel-style resolution of every component but the last: a symbolic link to a directory is
        followed BEFORE a following '..' is applied (os.path.abspath/normpath collapse 'link/..'
        lexically; open() does not).  Without symbolic links this is norm()."""
        if not self.links:
            return self.norm(p)
        p = os.fspath(p)
        if isinstance(p, bytes):
            p = p.decode("utf-8", "surrogateescape")
        if not p.startswith("/"):
            p = posixpath.join(CWD, p)
        comps = [c for c in p.split("/") if c and c != "."]
        cur, i, hops = "/", 0, 0
        while i < len(comps):
            c = comps[i]
            i += 1
            if c == "..":
                cur = posixpath.dirname(cur)
                continue
            cand = posixpath.join(cur, c)
            if i < len(comps) and cand in self.links:
                hops += 1
                if hops > 16:
                    raise OSError(_errno.ELOOP, os.strerror(_errno.ELOOP), p)
                comps = [x for x in self.links[cand].split("/") if x] + comps[i:]
                cur, i = "/", 0
                continue
            cur = cand
        return cur

    def role_of(self, path: str) -> str:
        return self.roles.get(path, "OTHER")

    def resolve(self, path: str) -> str:
        """Follow symbolic links (final component only; bounded)."""
        for _ in range(8):
            t = self.links.get(path)
            if t is None:
                return path
            path = t
        return path

    def set_links(self, links: dict):
        for k, v in (links or {}).items():
            self.links[self.norm(k)] = self.norm(v)

    def is_sim(self, path) -> bool:
        if isinstance(path, int):
            return False
        if path in ("", b""):
            return True
        try:
            n = self.norm(path)
            if n == DEV_NULL:
                return True
            # the root directory and names directly under it belong to the simulated tree too (a
            # read-only root): the parent of the working directory must never be the real "/"
            if n == "/" or (posixpath.dirname(n) == "/" and n not in REAL_TOP_LEVEL):
                return True
            if n == SIM_TMP or n.startswith(SIM_TMP + "/"):
                return True
            return n.startswith(CWD + "/") or n == CWD
        except TypeError:
            return False

    def fault(self, op: str, role: str, path: str, n: int):
        """Advance the fault-point counter; return the planned fault for this point, if any and
        if applicable to this kind of call."""
        self.seq += 1
        f = self.plan.get(self.seq)
        if f is None:
            # a persistent condition (full disk, stale handle, revoked permission) keeps failing
            # every later call of the same kind on the same file
            for pf in self.persistent:
                if pf["op"] == op and pf["role"] == role and self.seq > pf["at"]:
                    f = pf
                    break
            if f is None:
                return None
        elif f.get("persist") and f.get("op") == op:
            self.persistent.append({"at": self.seq, "op": op, "role": role, "kind": f["kind"], "persist": True})
        if f.get("op") and f["op"] != op:
            return None  # plan was made for another kind of call at this index: does not fire
        if f["kind"] != "short":
            self.note_fired(f)
            self.record(op, role, path, n, "!" + f["kind"])
        return f

    def note_fired(self, f):
        self.fired.append({"at": f["at"], "kind": f["kind"], "op": f.get("op")})

    def record(self, op, role, path, a, res):
        self.history.append([self.seq, op, role, a, res])

    def mutation(self, what, role, path):
        if path == DEV_NULL:
            return
        self.mutations.append([self.seq, what, role, path])
        self.touch(path)

    def touch(self, path):
        # logical clock: later than every initial mtime, increasing with the I/O sequence
        self.mtimes[path] = 100000.0 + self.seq

    def set_mtimes(self, mt: dict):
        for p, t in (mt or {}).items():
            self.mtimes[self.norm(p)] = float(t)

    # -- open ------------------------------------------------------------------------------
    def open(self, file, mode="r", buffering=-1, encoding=None, errors=None, newline=None, closefd=True, opener=None):
        if isinstance(file, int) and file in self.fds:
            return self._open_fd(file, mode, buffering, encoding, errors, newline, closefd)
        if not self.is_sim(file):
            # absolute real paths: reading them is harmless (linecache reads source files when a
            # warning or traceback is formatted); writing to them is outside the model
            if set(mode) & set("wax+"):
                self.passthrough.append(repr(file))
                raise PermissionError(_errno.EACCES, "write to a real path blocked by the simulator", os.fspath(file) if not isinstance(file, int) else None)
            return self._real_open(file, mode, buffering, encoding, errors, newline, closefd, opener)
        if opener is not None and not isinstance(file, int):
            # io.open(file, mode, opener=...) (tempfile.NamedTemporaryFile does this): the opener
            # returns the descriptor, like the real io.open asks it to
            import os as _os

            m = set(mode)
            if "r" in m and "+" not in m:
                flags = _os.O_RDONLY
            elif "+" in m:
                flags = _os.O_RDWR | (_os.O_CREAT if m & set("wax") else 0)
            else:
                flags = _os.O_WRONLY | _os.O_CREAT
            if "w" in m:
                flags |= _os.O_TRUNC
            if "a" in m:
                flags |= _os.O_APPEND
            if "x" in m:
                flags |= _os.O_EXCL
            fd = opener(file, flags | getattr(_os, "O_CLOEXEC", 0))
            if fd in self.fds:
                obj = self._open_fd(fd, mode, buffering, encoding, errors, newline, True)
                try:
                    obj.name = file
                except (AttributeError, TypeError):
                    pass
                return obj
            return self._real_open(fd, mode, buffering, encoding, errors, newline, closefd)
        if not isinstance(file, int) and os.fspath(file) in ("", b""):
            self.seq += 1
            self.record("open", "OTHER", "", mode, "!ENOENT")
            raise FileNotFoundError(_errno.ENOENT, os.strerror(_errno.ENOENT), os.fspath(file))
        path = self.phys(file)
        role = self.role_of(path)
        path = self.resolve(path)
        modes = set(mode)
        if modes - set("axrwb+tU") or len(mode) > len(modes):
            raise ValueError("invalid mode: %r" % mode)
        creating, reading, writing, appending = "x" in modes, "r" in modes, "w" in modes, "a" in modes
        updating, text, binary = "+" in modes, "t" in modes, "b" in modes
        if text and binary:
            raise ValueError("can't have text and binary mode at once")
        if creating + reading + writing + appending != 1:
            raise ValueError("must have exactly one of create/read/write/append mode")
        if binary and encoding is not None:
            raise ValueError("binary mode doesn't take an encoding argument")
        if binary and errors is not None:
            raise ValueError("binary mode doesn't take an errors argument")
        if binary and newline is not None:
            raise ValueError("binary mode doesn't take a newline argument")
        want_write = creating or writing or appending or updating
        want_read = reading or updating

        f = self.fault("open", role, path, 0)
        if f is not None:
            raise _oserror(f["kind"], path)
        # semantic errors of the file tree
        parent = posixpath.dirname(path)
        if path in self.dirs:
            if want_write:
                self.record("open", role, path, mode, "!EISDIR")
                raise IsADirectoryError(_errno.EISDIR, os.strerror(_errno.EISDIR), os.fspath(file))
            self.record("open", role, path, mode, "!EISDIR")
            raise IsADirectoryError(_errno.EISDIR, os.strerror(_errno.EISDIR), os.fspath(file))
        if parent not in self.dirs:
            self.record("open", role, path, mode, "!ENOENT")
            code = _errno.ENOTDIR if parent in self.files else _errno.ENOENT
            raise OSError(code, os.strerror(code), os.fspath(file))
        exists = path in self.files
        if reading and not exists:
            self.record("open", role, path, mode, "!ENOENT")
            raise FileNotFoundError(_errno.ENOENT, os.strerror(_errno.ENOENT), os.fspath(file))
        if creating and exists:
            self.record("open", role, path, mode, "!EEXIST")
            raise FileExistsError(_errno.EEXIST, os.strerror(_errno.EEXIST), os.fspath(file))
        if want_read and exists and path in self.unreadable:
            self.record("open", role, path, mode, "!EACCES")
            raise PermissionError(_errno.EACCES, os.strerror(_errno.EACCES), os.fspath(file))
        if want_write and ((exists and path in self.ro) or (not exists and parent in self.ro)):
            self.record("open", role, path, mode, "!EACCES")
            raise PermissionError(_errno.EACCES, os.strerror(_errno.EACCES), os.fspath(file))
        # effects of a successful open
        if not exists:
            self.files[path] = bytearray()
            self.mutation("create", role, path)
        elif writing:
            self.mutation("truncate", role, path)
            del self.files[path][:]
        elif want_write:
            self.mutation("open-for-write", role, path)
        self.record("open", role, path, mode, "ok")

        raw = SimRaw(self, path, role, want_read, want_write, appending)
        if appending:
            raw.pos = len(self.files[path])
        return self._wrap(raw, mode, buffering, encoding, errors, newline, binary, want_read, want_write, updating)

    def _open_fd(self, fd, mode, buffering, encoding, errors, newline, closefd):
        """io.open(fd, ...) / os.fdopen(fd, ...) on a simulated descriptor: wraps the existing raw
        object; like the real thing it does NOT truncate, whatever the mode says."""
        raw = self.fds[fd]
        modes = set(mode)
        binary = "b" in modes
        updating = "+" in modes
        want_read = "r" in modes or updating
        want_write = bool(modes & set("wax")) or updating
        if want_write and not raw._w or (want_read and not raw._r and not want_write):
            raise _oserror("EBADF", raw.path)
        if "a" in modes:
            raw._append = True
        if closefd:
            raw._fd_owned = fd
        else:
            raw = SimRawView(raw)
            raw._r, raw._w = raw._raw._r, raw._raw._w
        return self._wrap(raw, mode, buffering, encoding, errors, newline, binary, want_read and raw._r, want_write, updating and raw._r)

    def os_open(self, path, flags, mode=0o777, *, dir_fd=None):
        import os as _os

        if os.fspath(path) in ("", b""):
            raise FileNotFoundError(_errno.ENOENT, os.strerror(_errno.ENOENT), os.fspath(path))
        p = self.phys(path)
        role = self.role_of(p)
        if not flags & getattr(_os, "O_NOFOLLOW", 0):
            p = self.resolve(p)
        acc = flags & (_os.O_RDONLY | _os.O_WRONLY | _os.O_RDWR)
        want_write = acc in (_os.O_WRONLY, _os.O_RDWR)
        want_read = acc in (_os.O_RDONLY, _os.O_RDWR)
        f = self.fault("open", role, p, 0)
        if f is not None:
            raise _oserror(f["kind"], p)
        parent = posixpath.dirname(p)
        desc = "os.open:%#o" % flags
        if p in self.dirs:
            if want_write or flags & _os.O_CREAT:
                self.record("open", role, p, desc, "!EISDIR")
                raise IsADirectoryError(_errno.EISDIR, os.strerror(_errno.EISDIR), os.fspath(path))
            self.record("open", role, p, desc, "!EISDIR")
            raise IsADirectoryError(_errno.EISDIR, os.strerror(_errno.EISDIR), os.fspath(path))
        if parent not in self.dirs:
            self.record("open", role, p, desc, "!ENOENT")
            raise FileNotFoundError(_errno.ENOENT, os.strerror(_errno.ENOENT), os.fspath(path))
        exists = p in self.files
        if not exists and not flags & _os.O_CREAT:
            self.record("open", role, p, desc, "!ENOENT")
            raise FileNotFoundError(_errno.ENOENT, os.strerror(_errno.ENOENT), os.fspath(path))
        if exists and flags & _os.O_CREAT and flags & _os.O_EXCL:
            self.record("open", role, p, desc, "!EEXIST")
            raise FileExistsError(_errno.EEXIST, os.strerror(_errno.EEXIST), os.fspath(path))
        if want_read and exists and p in self.unreadable:
            self.record("open", role, p, desc, "!EACCES")
            raise PermissionError(_errno.EACCES, os.strerror(_errno.EACCES), os.fspath(path))
        if (want_write and exists and p in self.ro) or (not exists and parent in self.ro):
            self.record("open", role, p, desc, "!EACCES")
            raise PermissionError(_errno.EACCES, os.strerror(_errno.EACCES), os.fspath(path))
        if not exists:
            self.files[p] = bytearray()
            self.mutation("create", role, p)
        elif flags & _os.O_TRUNC and want_write:
            self.mutation("truncate", role, p)
            del self.files[p][:]
        elif want_write:
            self.mutation("open-for-write", role, p)
        self.record("open", role, p, desc, "ok")
        raw = SimRaw(self, p, role, want_read, want_write, bool(flags & _os.O_APPEND))
        fd = self.next_fd
        self.next_fd += 1
        self.fds[fd] = raw
        raw._fd_owned = fd
        return fd

    def os_close(self, fd):
        if fd == 1:
            return
        raw = self.fds.pop(fd)
        raw._fd_owned = None
        raw.close()

    def os_write(self, fd, data):
        # like the real os.write (PEP 475) the call is retried when interrupted by a signal
        while True:
            try:
                return self.fds[fd].write(data)
            except InterruptedError:
                continue

    def os_read(self, fd, n):
        b = bytearray(n)
        while True:
            try:
                k = self.fds[fd].readinto(b)
                break
            except InterruptedError:
                continue
        return bytes(b[:k])

    def os_ftruncate(self, fd, length):
        raw = self.fds[fd]
        raw.truncate(length)

    def os_lseek(self, fd, pos, how):
        return self.fds[fd].seek(pos, how)

    def os_fstat(self, fd):
        raw = self.fds[fd]
        if raw.role == "STDOUT":
            import stat as _stat

            kind = _stat.S_IFCHR if raw.isatty() else _stat.S_IFIFO
            return _mkstat(kind | 0o620, 3, 1, 0, 0)
        return self._stat_result(raw.path)

    def _stat_result(self, p):
        import stat as _stat

        if p in self.dirs:
            return _mkstat(_stat.S_IFDIR | (0o555 if p in self.ro else 0o755), 1 + (sum(p.encode()) & 0xFFF), 2, 4096, 1000)
        if p in self.files and p in self.fifos:
            return _mkstat(_stat.S_IFIFO | 0o600, sum(p.encode()) & 0xFFFF, 1, 0, 1000)
        if p in self.files:
            mode = 0o444 if p in self.ro else 0o644
            mt = int(self.mtimes.get(p, 1000.0))
            ino = self._inos.setdefault(id(self.files[p]), 1000 + len(self._inos))
            nlink = sum(1 for o in self.files.values() if o is self.files[p])
            return _mkstat(_stat.S_IFREG | mode, ino, nlink, len(self.files[p]), mt)
        raise FileNotFoundError(_errno.ENOENT, os.strerror(_errno.ENOENT), p)

    def os_stat(self, path, *a, **kw):
        if kw.get("follow_symlinks", True) is False:
            return self.os_lstat(path)
        return self._stat_result(self.resolve(self.phys(path)))

    def os_lstat(self, path, *a, **kw):
        import stat as _stat

        p = self.phys(path)
        if p in self.links:
            return _mkstat(_stat.S_IFLNK | 0o777, sum(p.encode()) & 0xFFFF, 1, len(self.links[p]), 1000)
        return self._stat_result(p)

    def os_link(self, src, dst, *a, **kw):
        s_, d_ = self.phys(src), self.phys(dst)
        f = self.fault("rename", self.role_of(d_), d_, 0)
        if f is not None:
            raise _oserror(f["kind"], d_)
        if s_ not in self.files:
            raise FileNotFoundError(_errno.ENOENT, os.strerror(_errno.ENOENT), os.fspath(src))
        if d_ in self.files or d_ in self.dirs or d_ in self.links:
            raise FileExistsError(_errno.EEXIST, os.strerror(_errno.EEXIST), os.fspath(dst))
        if posixpath.dirname(d_) not in self.dirs:
            raise FileNotFoundError(_errno.ENOENT, os.strerror(_errno.ENOENT), os.fspath(dst))
        if posixpath.dirname(d_) in self.ro:
            raise PermissionError(_errno.EACCES, os.strerror(_errno.EACCES), os.fspath(dst))
        self.files[d_] = self.files[s_]      # the same file object: a hard link
        self.mutation("link", self.role_of(d_), d_)
        self.record("link", self.role_of(d_), d_, s_, "ok")

    def os_symlink(self, src, dst, *a, **kw):
        d_ = self.phys(dst)
        if d_ in self.files or d_ in self.dirs or d_ in self.links:
            raise FileExistsError(_errno.EEXIST, os.strerror(_errno.EEXIST), os.fspath(dst))
        if posixpath.dirname(d_) not in self.dirs:
            raise FileNotFoundError(_errno.ENOENT, os.strerror(_errno.ENOENT), os.fspath(dst))
        if posixpath.dirname(d_) in self.ro:
            raise PermissionError(_errno.EACCES, os.strerror(_errno.EACCES), os.fspath(dst))
        target = os.fspath(src)
        self.links[d_] = self.phys(target if target.startswith("/") else posixpath.join(posixpath.dirname(d_), target))
        self.mutation("symlink", self.role_of(d_), d_)

    def os_rmdir(self, path, *a, **kw):
        p = self.phys(path)
        if p not in self.dirs:
            raise FileNotFoundError(_errno.ENOENT, os.strerror(_errno.ENOENT), os.fspath(path))
        if any(posixpath.dirname(q) == p for q in list(self.files) + list(self.dirs) + list(self.links) if q != p):
            raise OSError(_errno.ENOTEMPTY, os.strerror(_errno.ENOTEMPTY), os.fspath(path))
        if posixpath.dirname(p) in self.ro:
            raise PermissionError(_errno.EACCES, os.strerror(_errno.EACCES), os.fspath(path))
        self.dirs.discard(p)
        self.mutation("rmdir", self.role_of(p), p)

    def os_truncate(self, path, length, *a, **kw):
        p = self.resolve(self.phys(path))
        if p not in self.files:
            raise FileNotFoundError(_errno.ENOENT, os.strerror(_errno.ENOENT), os.fspath(path))
        if p in self.ro:
            raise PermissionError(_errno.EACCES, os.strerror(_errno.EACCES), os.fspath(path))
        self.mutation("truncate", self.role_of(p), p)
        d = self.files[p]
        if length < len(d):
            del d[length:]
        else:
            d.extend(b"\0" * (length - len(d)))

    def os_dup(self, fd, *a, **kw):
        raw = self.fds[fd]
        nfd = self.next_fd
        self.next_fd += 1
        self.fds[nfd] = raw
        return nfd

    def os_dup2(self, fd, fd2, *a, **kw):
        raw = self.fds[fd]
        old = self.fds.get(fd2)
        if old is not None and old is not raw:
            old._redirect = raw   # file objects that wrap the old descriptor now reach the new file
        self.fds[fd2] = raw
        return fd2

    def os_scandir(self, path="."):
        fs = self
        p = self.phys(path)
        if p not in self.dirs:
            raise FileNotFoundError(_errno.ENOENT, os.strerror(_errno.ENOENT), os.fspath(path))
        base = os.fspath(path)

        class Entry:
            def __init__(self, name):
                self.name = name
                self.path = posixpath.join(base, name)
                self._p = posixpath.join(p, name)

            def is_symlink(self):
                return self._p in fs.links

            def is_dir(self, *, follow_symlinks=True):
                q = fs.resolve(self._p) if follow_symlinks else self._p
                return q in fs.dirs

            def is_file(self, *, follow_symlinks=True):
                q = fs.resolve(self._p) if follow_symlinks else self._p
                return q in fs.files and q not in fs.fifos

            def stat(self, *, follow_symlinks=True):
                return fs.os_stat(self._p) if follow_symlinks else fs.os_lstat(self._p)

            def inode(self):
                return self.stat(follow_symlinks=False).st_ino

            def __fspath__(self):
                return self.path

            def __repr__(self):
                return "<SimDirEntry %r>" % self.name

        class Scan:
            def __init__(self):
                self._it = iter([Entry(n) for n in fs.os_listdir(path)])

            def __iter__(self):
                return self

            def __next__(self):
                return next(self._it)

            def __enter__(self):
                return self

            def __exit__(self, *a):
                return False

            def close(self):
                pass

        return Scan()

    def os_access(self, path, mode, *a, **kw):
        import os as _os

        p = self.resolve(self.phys(path))
        if p not in self.files and p not in self.dirs:
            return False
        if mode & _os.R_OK and p in self.unreadable:
            return False
        if mode & _os.W_OK and p in self.ro:
            return False
        if mode & _os.X_OK and p in self.files:
            return False
        return True

    def os_readlink(self, path, *a, **kw):
        p = self.phys(path)
        if p not in self.links:
            raise OSError(_errno.EINVAL, os.strerror(_errno.EINVAL), os.fspath(path))
        return self.links[p]

    def os_mkdir(self, path, mode=0o777, *a, **kw):
        p = self.phys(path)
        if p in self.dirs or p in self.files:
            raise FileExistsError(_errno.EEXIST, os.strerror(_errno.EEXIST), os.fspath(path))
        if posixpath.dirname(p) not in self.dirs:
            raise FileNotFoundError(_errno.ENOENT, os.strerror(_errno.ENOENT), os.fspath(path))
        if posixpath.dirname(p) in self.ro:
            raise PermissionError(_errno.EACCES, os.strerror(_errno.EACCES), os.fspath(path))
        self.dirs.add(p)
        self.mutation("mkdir", self.role_of(p), p)

    def os_listdir(self, path="."):
        p = self.resolve(self.phys(path))
        if p not in self.dirs:
            raise FileNotFoundError(_errno.ENOENT, os.strerror(_errno.ENOENT), os.fspath(path))
        out = set()
        for q in list(self.files) + list(self.dirs) + list(self.links):
            if q != p and posixpath.dirname(q) == p:
                out.add(posixpath.basename(q))
        return sorted(out)

    def _wrap(self, raw, mode, buffering, encoding, errors, newline, binary, want_read, want_write, updating):
        line_buffering = False
        if buffering == 1 and not binary:
            buffering = -1
            line_buffering = True
        if buffering < 0:
            buffering = int(self.knobs.get("buffer_size", io.DEFAULT_BUFFER_SIZE))
        if buffering == 0:
            if binary:
                self.open_objs.append(raw)
                return raw
            raise ValueError("can't have unbuffered text I/O")
        if updating:
            buf = io.BufferedRandom(raw, buffering)
        elif want_write:
            buf = io.BufferedWriter(raw, buffering)
        else:
            buf = io.BufferedReader(raw, buffering)
        if binary:
            self.open_objs.append(buf)
            return buf
        if encoding is None:
            encoding = self.knobs.get("locale", "utf-8")
        elif encoding == "locale":
            encoding = self.knobs.get("locale", "utf-8")
        txt = io.TextIOWrapper(buf, encoding, errors, newline, line_buffering)
        txt.mode = mode
        self.open_objs.append(txt)
        return txt

    def make_stdout(self):
        raw = SimRaw(self, "<stdout>", "STDOUT", False, True, False)
        self.fds[1] = raw  # os.write(1, ...) / sys.stdout.fileno() reach the simulated stream
        buf = io.BufferedWriter(raw, int(self.knobs.get("stdout_buffer", io.DEFAULT_BUFFER_SIZE)))
        txt = io.TextIOWrapper(buf, self.knobs.get("stdout_encoding", "utf-8"), "strict", None,
                               bool(self.knobs.get("stdout_line_buffered", False)))
        txt.mode = "w"
        return txt

    _real_open = staticmethod(io.open)

    # -- os-level operations on sim paths (so refactors to atomic writes are modelled) ------
    def replace(self, src, dst, *a, **kw):
        s, d = self.phys(src), self.phys(dst)
        f = self.fault("rename", self.role_of(d), d, 0)
        if f is not None:
            raise _oserror(f["kind"], d)
        if s in self.links:
            # renaming a symbolic link moves the link
            self.links[d] = self.links.pop(s)
            self.files.pop(d, None)
            self.mutation("rename-onto", self.role_of(d), d)
            self.record("rename", self.role_of(d), d, s, "ok")
            return
        if s not in self.files:
            raise FileNotFoundError(_errno.ENOENT, os.strerror(_errno.ENOENT), os.fspath(src))
        if d in self.dirs:
            raise IsADirectoryError(_errno.EISDIR, os.strerror(_errno.EISDIR), os.fspath(dst))
        if posixpath.dirname(d) not in self.dirs:
            raise FileNotFoundError(_errno.ENOENT, os.strerror(_errno.ENOENT), os.fspath(dst))
        if posixpath.dirname(d) in self.ro or posixpath.dirname(s) in self.ro:
            raise PermissionError(_errno.EACCES, os.strerror(_errno.EACCES), os.fspath(dst))
        self.links.pop(d, None)  # a rename onto a symbolic link replaces the link, not its target
        self.files[d] = self.files.pop(s)
        self.mutation("rename-onto", self.role_of(d), d)
        self.mutation("rename-from", self.role_of(s), s)
        self.record("rename", self.role_of(d), d, s, "ok")

    def remove(self, path, *a, **kw):
        p = self.phys(path)
        f = self.fault("unlink", self.role_of(p), p, 0)
        if f is not None:
            raise _oserror(f["kind"], p)
        if p in self.links:
            del self.links[p]
            self.mutation("unlink", self.role_of(p), p)
            self.record("unlink", self.role_of(p), p, 0, "ok")
            return
        if p not in self.files:
            raise FileNotFoundError(_errno.ENOENT, os.strerror(_errno.ENOENT), os.fspath(path))
        if posixpath.dirname(p) in self.ro:
            raise PermissionError(_errno.EACCES, os.strerror(_errno.EACCES), os.fspath(path))
        del self.files[p]
        self.mutation("unlink", self.role_of(p), p)
        self.record("unlink", self.role_of(p), p, 0, "ok")

    def exists(self, path, *a, **kw):
        p = self.resolve(self.phys(path))
        return p in self.files or p in self.dirs

    def isfile(self, path, *a, **kw):
        p = self.resolve(self.phys(path))
        return p in self.files and p not in self.fifos

    def isdir(self, path, *a, **kw):
        return self.resolve(self.phys(path)) in self.dirs

    def snapshot(self, keep=()) -> dict:
        """Contents as hex; large files that are not of interest to the oracle (not in `keep`) are
        represented by a digest, which is all that is needed to see whether they changed."""
        import hashlib

        files = {}
        for p in sorted(self.files):
            if p == DEV_NULL:
                continue
            data = bytes(self.files[p])
            if len(data) > 16384 and p not in keep:
                files[p] = "#sha256:%s:%d" % (hashlib.sha256(data).hexdigest(), len(data))
            else:
                files[p] = data.hex()
        return {"files": files, "dirs": sorted(d for d in self.dirs if d != "/dev"), "links": {p: self.links[p] for p in sorted(self.links)}}


class Patches:
    """Installs SimFS over builtins.open / io.open / os.* for sim paths inside the child."""

    def __init__(self, fs: SimFS):
        self.fs = fs
        self.saved = []

    def _set(self, mod, name, val):
        self.saved.append((mod, name, getattr(mod, name)))
        setattr(mod, name, val)

    def install(self):
        import builtins
        import os as _os

        fs = self.fs
        self._set(builtins, "open", fs.open)
        self._set(io, "open", fs.open)
        # modules that captured builtins.open at import time
        for modname, attr in (("tokenize", "_builtin_open"), ("_pyio", "open")):
            mod = sys.modules.get(modname)
            if mod is not None and hasattr(mod, attr):
                self._set(mod, attr, fs.open)

        def wrap2(real, sim):
            def f(a, b, *args, **kw):
                if fs.is_sim(a) or fs.is_sim(b):
                    return sim(a, b, *args, **kw)
                return real(a, b, *args, **kw)
            return f

        def wrap1(real, sim):
            def f(a, *args, **kw):
                if fs.is_sim(a):
                    return sim(a, *args, **kw)
                return real(a, *args, **kw)
            return f

        self._set(_os, "replace", wrap2(_os.replace, fs.replace))
        self._set(_os, "rename", wrap2(_os.rename, fs.replace))
        self._set(_os, "remove", wrap1(_os.remove, fs.remove))
        self._set(_os, "unlink", wrap1(_os.unlink, fs.remove))
        self._set(_os.path, "exists", wrap1(_os.path.exists, fs.exists))
        self._set(_os.path, "isfile", wrap1(_os.path.isfile, fs.isfile))
        self._set(_os.path, "isdir", wrap1(_os.path.isdir, fs.isdir))
        self._set(_os, "getcwd", lambda: CWD)

        def wrapfd(real, sim):
            def f(fd, *args, **kw):
                if isinstance(fd, int) and fd in fs.fds:
                    return sim(fd, *args, **kw)
                return real(fd, *args, **kw)
            return f

        wrapfd_early = wrapfd

        self._set(_os, "isatty", wrapfd(_os.isatty, lambda fd: fs.fds[fd].isatty()))
        def guarded_os_open(path, flags, *a, **kw):
            if fs.is_sim(path):
                return fs.os_open(path, flags, *a, **kw)
            if flags & (_os.O_WRONLY | _os.O_RDWR | _os.O_CREAT | _os.O_TRUNC | _os.O_APPEND):
                fs.passthrough.append(repr(path))
                raise PermissionError(_errno.EACCES, "write to a real path blocked by the simulator", _os.fspath(path))
            return real_os_open(path, flags, *a, **kw)

        real_os_open = _os.open
        self._set(_os, "open", guarded_os_open)
        self._set(_os, "close", wrapfd(_os.close, fs.os_close))
        self._set(_os, "write", wrapfd(_os.write, fs.os_write))
        self._set(_os, "read", wrapfd(_os.read, fs.os_read))
        self._set(_os, "ftruncate", wrapfd(_os.ftruncate, fs.os_ftruncate))
        self._set(_os, "lseek", wrapfd(_os.lseek, fs.os_lseek))
        self._set(_os, "fsync", wrapfd(_os.fsync, lambda fd: None))
        self._set(_os, "fdatasync", wrapfd(_os.fdatasync, lambda fd: None))
        self._set(_os, "fchmod", wrapfd(_os.fchmod, lambda fd, mode: None))

        def sim_stat(real, follow=True):
            def f(path, *args, **kw):
                if isinstance(path, int):
                    if path in fs.fds:
                        return fs.os_fstat(path)
                    return real(path, *args, **kw)
                if fs.is_sim(path):
                    return fs.os_stat(path, **{k: v for k, v in kw.items() if k == "follow_symlinks"})
                return real(path, *args, **kw)
            return f

        self._set(_os, "stat", sim_stat(_os.stat))
        self._set(_os, "lstat", wrap1(_os.lstat, fs.os_lstat))
        self._set(_os, "readlink", wrap1(_os.readlink, fs.os_readlink))
        self._set(_os, "access", wrap1(_os.access, fs.os_access))
        self._set(_os, "link", wrap2(_os.link, fs.os_link))
        self._set(_os, "symlink", lambda src, dst, *a, **k: fs.os_symlink(src, dst) if fs.is_sim(dst) else _real_symlink(src, dst, *a, **k))
        _real_symlink = self.saved[-1][2]
        self._set(_os, "rmdir", wrap1(_os.rmdir, fs.os_rmdir))
        self._set(_os, "truncate", wrap1(_os.truncate, fs.os_truncate))
        self._set(_os, "dup", wrapfd_early(_os.dup, fs.os_dup))
        self._set(_os, "dup2", wrapfd_early(_os.dup2, fs.os_dup2))
        self._set(_os, "scandir", lambda path=".": fs.os_scandir(path) if (not isinstance(path, int) and fs.is_sim(path)) else _real_scandir(path))
        _real_scandir = self.saved[-1][2]
        for xname in ("listxattr", "getxattr", "setxattr", "removexattr"):
            if hasattr(_os, xname):
                real_x = getattr(_os, xname)
                if xname == "listxattr":
                    self._set(_os, xname, (lambda real: lambda path=None, *a, **k: [] if (path is None or isinstance(path, int) and path in fs.fds or not isinstance(path, int) and fs.is_sim(path)) else real(path, *a, **k))(real_x))
                elif xname == "getxattr":
                    self._set(_os, xname, (lambda real: lambda path, attr, *a, **k: (_ for _ in ()).throw(OSError(_errno.ENODATA, "No data available")) if (isinstance(path, int) and path in fs.fds or not isinstance(path, int) and fs.is_sim(path)) else real(path, attr, *a, **k))(real_x))
                else:
                    self._set(_os, xname, (lambda real: lambda path, *a, **k: None if (isinstance(path, int) and path in fs.fds or not isinstance(path, int) and fs.is_sim(path)) else real(path, *a, **k))(real_x))
        self._set(_os, "chown", wrap1(_os.chown, lambda path, *a, **kw: None))
        try:
            import shutil as _shutil

            # path-based rmtree / copy: the descriptor-based variants use dir_fd, which is not modelled
            self._set(_shutil, "_use_fd_functions", False)
            if hasattr(_shutil.rmtree, "avoids_symlink_attacks"):
                pass
        except ImportError:
            pass

        def sim_FileIO(file, mode="r", closefd=True, opener=None):
            if isinstance(file, int):
                if file in fs.fds:
                    raw = fs.fds[file]
                    if closefd:
                        raw._fd_owned = file
                        return raw
                    return SimRawView(raw)
                return real_FileIO(file, mode, closefd, opener)
            if fs.is_sim(file):
                return fs.open(file, mode if "b" in mode else mode + "b", buffering=0, opener=opener)
            if set(mode) & set("wax+"):
                fs.passthrough.append(repr(file))
                raise PermissionError(_errno.EACCES, "write to a real path blocked by the simulator", _os.fspath(file))
            return real_FileIO(file, mode, closefd, opener)

        import select as _select

        self._set(_select, "select", lambda r, w, x, timeout=None: (list(r), list(w), []))
        real_FileIO = io.FileIO
        self._set(io, "FileIO", sim_FileIO)
        self._set(_os.path, "islink", wrap1(_os.path.islink, lambda p: fs.phys(p) in fs.links))
        self._set(_os, "fstat", wrapfd(_os.fstat, fs.os_fstat))
        self._set(_os, "mkdir", wrap1(_os.mkdir, fs.os_mkdir))
        self._set(_os, "listdir", lambda path=".": fs.os_listdir(path) if fs.is_sim(path) else _real_listdir(path))
        _real_listdir = self.saved[-1][2]
        self._set(_os, "chmod", wrap1(_os.chmod, lambda path, *a, **kw: None))
        self._set(_os.path, "getsize", wrap1(_os.path.getsize, lambda p: len(fs.files[fs.phys(p)]) if fs.phys(p) in fs.files else fs.os_stat(p).st_size))
        self._set(_os.path, "getmtime", wrap1(_os.path.getmtime, lambda p: fs.os_stat(p).st_mtime))
        self._set(_os, "utime", wrap1(_os.utime, lambda p, *a, **k: None))
        self._set(_os.path, "abspath", wrap1(_os.path.abspath, lambda p: fs.norm(p)))
        self._set(_os.path, "realpath", wrap1(_os.path.realpath, lambda p, **kw: fs.resolve(fs.phys(p))))
        try:
            import fcntl as _fcntl

            self._set(_fcntl, "flock", wrapfd(_fcntl.flock, lambda fd, op: None))
            self._set(_fcntl, "lockf", wrapfd(_fcntl.lockf, lambda fd, *a, **k: None))
        except ImportError:
            pass

    def install_determinism(self, seed: int, invocation: int = 0):
        """Sources of nondeterminism a command-line program commonly uses for temporary names and
        time stamps, put behind the simulator: process id, clocks, tempfile's private generator,
        uuid, os.urandom (Python-level callers)."""
        import os as _os
        import random as _random
        import tempfile as _tempfile
        import time as _time
        import uuid as _uuid

        # a later invocation is another process at another time: other pid, other temp names
        rng = _random.Random(seed * 1000003 + invocation)
        clock = [1_700_000_000.0 + 3600.0 * invocation]

        def now():
            clock[0] += 0.001
            return clock[0]

        self._set(_os, "getpid", lambda: 4242 + 17 * invocation)
        self._set(_os, "getppid", lambda: 4241)
        self._set(_time, "time", now)
        self._set(_time, "time_ns", lambda: int(now() * 1e9))
        self._set(_time, "monotonic", now)
        self._set(_time, "perf_counter", now)
        self._set(_os, "urandom", lambda n: bytes(rng.getrandbits(8) for _ in range(n)))
        self._set(_random, "_urandom", _os.urandom)
        self._set(_uuid, "uuid4", lambda: _uuid.UUID(int=rng.getrandbits(128), version=4))
        self._set(_uuid, "uuid1", lambda *a, **k: _uuid.UUID(int=rng.getrandbits(128), version=1))
        self._set(_tempfile._RandomNameSequence, "rng", property(lambda self_: rng))
        self._set(_tempfile, "tempdir", SIM_TMP)

    def uninstall(self):
        for mod, name, val in reversed(self.saved):
            setattr(mod, name, val)
        self.saved = []
